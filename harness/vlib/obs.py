"""Canonical observations shared by implementation runs and the Coq models.

Python obs values:  int, bool, None, bytes/bytearray, S(str), Err(kind), Abort(code), list/tuple.
They are printed as terms of CV.Base.Val.val.
"""
import struct

E_VALUE, E_KEY, E_TYPE, E_OD, E_SDOCOMM, E_LSS, E_NMT, E_RUNTIME, E_OTHER, E_STRUCT, E_INDEX, \
    E_OVERFLOW, E_IO, E_ATTR = range(1, 15)
E_FUEL = 99
ENAMES = {1: "ValueError", 2: "KeyError", 3: "TypeError", 4: "ObjectDictionaryError", 5: "SdoCommunicationError",
          6: "LssError", 7: "NmtError", 8: "RuntimeError", 9: "other", 10: "struct.error", 11: "IndexError",
          12: "OverflowError", 13: "OSError", 14: "AttributeError", 99: "model-out-of-fuel"}


class S:
    """A text string observation (code points)."""
    __slots__ = ("s",)
    def __init__(self, s): self.s = s
    def __eq__(self, o): return isinstance(o, S) and o.s == self.s
    def __hash__(self): return hash(("S", self.s))
    def __repr__(self): return f"S({self.s!r})"


class Err:
    __slots__ = ("kind", "text")
    def __init__(self, kind, text=""): self.kind, self.text = kind, text
    def __eq__(self, o): return isinstance(o, Err) and o.kind == self.kind
    def __hash__(self): return hash(("Err", self.kind))
    def __repr__(self): return f"Err({ENAMES.get(self.kind, self.kind)}{': ' + self.text if self.text else ''})"


class Abort:
    __slots__ = ("code",)
    def __init__(self, code): self.code = code
    def __eq__(self, o): return isinstance(o, Abort) and o.code == self.code
    def __hash__(self): return hash(("Abort", self.code))
    def __repr__(self): return f"Abort(0x{self.code:08X})"


def canon_exc(e):
    """Map an exception raised by the implementation to a canonical observation."""
    import canopen
    from canopen.sdo.exceptions import SdoAbortedError, SdoCommunicationError
    from canopen.objectdictionary import ObjectDictionaryError
    from canopen.lss import LssError
    from canopen.nmt import NmtError
    t = str(e)[:120]
    if isinstance(e, SdoAbortedError): return Abort(e.code)
    if isinstance(e, SdoCommunicationError): return Err(E_SDOCOMM, t)
    if isinstance(e, ObjectDictionaryError): return Err(E_OD, t)
    if isinstance(e, LssError): return Err(E_LSS, t)
    if isinstance(e, NmtError): return Err(E_NMT, t)
    if isinstance(e, struct.error): return Err(E_STRUCT, t)
    if isinstance(e, KeyError): return Err(E_KEY, t)
    if isinstance(e, IndexError): return Err(E_INDEX, t)
    if isinstance(e, OverflowError): return Err(E_OVERFLOW, t)
    if isinstance(e, ValueError): return Err(E_VALUE, t)
    if isinstance(e, TypeError): return Err(E_TYPE, t)
    if isinstance(e, AttributeError): return Err(E_ATTR, t)
    if isinstance(e, OSError): return Err(E_IO, t)
    if isinstance(e, RuntimeError): return Err(E_RUNTIME, t)
    return Err(E_OTHER, type(e).__name__ + ": " + t)


def guarded(f, *a, **k):
    try:
        return f(*a, **k)
    except Exception as e:  # noqa: BLE001 - the observation is the exception class
        return canon_exc(e)


# ------------------------------------------------------------------ Gallina printing
def gz(n):
    if isinstance(n, bool): n = int(n)
    if not isinstance(n, int): raise TypeError(f"gz: {n!r}")
    return f"({n})" if n < 0 else str(n)

def gnat(n):
    assert isinstance(n, int) and 0 <= n < 5000, n
    return f"{n}%nat"

def gbool(b): return "true" if b else "false"

def glist(items): return "[" + "; ".join(items) + "]"

def gzlist(l): return glist([gz(x) for x in l])

def gbytes(b): return gzlist(list(bytes(b)))

def gstr(s): return gzlist([ord(c) for c in s])

def gopt(x, f=gz): return "None" if x is None else f"(Some {f(x)})"

def gpair(a, b): return f"({a}, {b})"

def gval(o):
    if isinstance(o, bool): return f"(VBool {gbool(o)})"
    if isinstance(o, int): return f"(VZ {gz(o)})"
    if o is None: return "VNone"
    if isinstance(o, (bytes, bytearray)): return f"(VB {gbytes(o)})"
    if isinstance(o, S): return f"(VS {gstr(o.s)})"
    if isinstance(o, Err): return f"(VErr {gz(o.kind)})"
    if isinstance(o, Abort): return f"(VAbort {gz(o.code)})"
    if isinstance(o, (list, tuple)): return "(VL " + glist([gval(x) for x in o]) + ")"
    raise TypeError(f"gval: cannot print {o!r}")


def jsonable(o):
    """For evidence / replay files."""
    if isinstance(o, (bool, int, str)) or o is None: return o
    if isinstance(o, float): return o
    if isinstance(o, (bytes, bytearray)): return {"hex": bytes(o).hex()}
    if isinstance(o, S): return {"str": [ord(c) for c in o.s]}
    if isinstance(o, Err): return {"err": ENAMES.get(o.kind, o.kind), "text": o.text}
    if isinstance(o, Abort): return {"abort": f"0x{o.code:08X}"}
    if isinstance(o, dict): return {str(k): jsonable(v) for k, v in o.items()}
    if isinstance(o, (list, tuple)): return [jsonable(x) for x in o]
    return repr(o)
