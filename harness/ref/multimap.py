"""Reference for C10, written from the property statement and the CiA 301 predefined connection
set - independent of the library and of the Coq model.

* RefNet: a multimap  can_id -> ordered list of callbacks  (plain dict of lists; an empty list and
  a missing key mean the same), the node registry, and the list of discovered node ids.
* Callbacks are hashable tuples:  ("u", k) user callback k, ("lss",) the LSS master of the
  network, ("n", (uid, node_id, local), role) a callback of a node object, and
  ("n", obj, ROLE_SDO_EXTRA, k) the response callback of the k-th additional SDO client channel
  (k = 1, 2, ...) of a remote-node proxy, which listens on that channel's own response COB-ID.
* What the property does not specify (the outcome of unsubscribing something that is not
  subscribed; node removal after somebody tampered with the node's own subscriptions) is reported
  as UNSPECIFIED so that the caller stops judging, never guessed.
"""

# CiA 301 predefined connection set (function code << 7)
NMT, EMCY, SDO_TX, SDO_RX, HEARTBEAT = 0x000, 0x080, 0x580, 0x600, 0x700
TPDO = (0x180, 0x280, 0x380, 0x480)
# services a node transmits on, by which its presence can be detected
SCAN_SERVICES = (HEARTBEAT, SDO_TX) + TPDO + (EMCY,)
LSS_SLAVE_TO_MASTER = 0x7E4            # CiA 305

ROLE_SDO_RESPONSE, ROLE_HEARTBEAT, ROLE_EMCY, ROLE_NMT, ROLE_SDO_REQUEST, ROLE_SDO_EXTRA = 0, 1, 2, 3, 4, 5

UNSPECIFIED = object()


def node_subscriptions(obj, extra_tx=()):
    """(can_id, callback) pairs of a node object (uid, node_id, local); extra_tx = response COB-IDs
    of its additional SDO channels, in creation order."""
    uid, n, local = obj
    if local:   # a local node serves SDO requests and obeys NMT commands
        return [(SDO_RX + n, ("n", obj, ROLE_SDO_REQUEST)), (NMT, ("n", obj, ROLE_NMT))]
    # a proxy of a remote node listens to what that node transmits (on every SDO channel it has),
    # and tracks NMT commands
    return ([(SDO_TX + n, ("n", obj, ROLE_SDO_RESPONSE))] +
            [(tx, ("n", obj, ROLE_SDO_EXTRA, k)) for k, tx in enumerate(extra_tx, 1)] +
            [(HEARTBEAT + n, ("n", obj, ROLE_HEARTBEAT)), (EMCY + n, ("n", obj, ROLE_EMCY)),
             (NMT, ("n", obj, ROLE_NMT))])


def named_node(can_id):
    """node id named by a COB-ID of the services in SCAN_SERVICES, else None (plain arithmetic)."""
    for svc in SCAN_SERVICES:
        n = can_id - svc
        if 1 <= n <= 127:
            return n
    return None


def scan(ids):
    found = []
    for i in ids:
        n = named_node(i)
        if n is not None and n not in found:
            found.append(n)
    return found


class RefNet:
    def __init__(self):
        self.m = {LSS_SLAVE_TO_MASTER: [("lss",)]}
        self.nodes = {}
        self.found = []
        self.extra = {}        # node object -> response COB-IDs of its additional SDO channels

    def subscriptions_of(self, obj):
        return node_subscriptions(obj, self.extra.get(obj, ()))

    def add_sdo(self, obj, tx):
        """A further SDO client channel on a remote-node proxy; live at once if the proxy is on the
        network.  UNSPECIFIED for a local node (it has no client channels)."""
        if obj[2]:
            return UNSPECIFIED
        l = self.extra.setdefault(obj, [])
        l.append(tx)
        if self.registered(obj):
            self.subscribe(tx, ("n", obj, ROLE_SDO_EXTRA, len(l)))
        return True

    def subscribers(self, c):
        return list(self.m.get(c, []))

    def subscribe(self, c, h):
        l = self.m.setdefault(c, [])
        if h not in l:
            l.append(h)

    def unsubscribe(self, c, h):
        """True: must succeed.  UNSPECIFIED: h is not subscribed to c (nothing changes)."""
        l = self.m.get(c, [])
        if h not in l:
            return UNSPECIFIED
        self.m[c] = [x for x in l if x != h]
        return True

    def unsubscribe_all(self, c):
        had = bool(self.m.get(c))
        self.m.pop(c, None)
        return True if had else UNSPECIFIED

    def _intact(self, obj):
        return all(h in self.m.get(c, []) for c, h in self.subscriptions_of(obj))

    def _detach(self, obj):
        for c, h in self.subscriptions_of(obj):
            self.unsubscribe(c, h)

    def add_node(self, obj):
        """True: must succeed.  UNSPECIFIED: the node to be replaced was tampered with."""
        old = self.nodes.get(obj[1])
        if old is not None:
            if not self._intact(old):
                return UNSPECIFIED
            self._detach(old)
        self.nodes[obj[1]] = obj
        for c, h in self.subscriptions_of(obj):
            self.subscribe(c, h)
        return True

    def remove_node(self, n):
        old = self.nodes.get(n)
        if old is None or not self._intact(old):
            return UNSPECIFIED
        self._detach(old)
        del self.nodes[n]
        return True

    def deliver(self, c, data, ts):
        out = [(h, c, data, ts) for h in self.m.get(c, [])]
        n = named_node(c)
        if n is not None and n not in self.found:
            self.found.append(n)
        return out

    def registered(self, obj):
        return self.nodes.get(obj[1]) == obj
