"""A strict CANopen device as far as PDO configuration goes (reference peer for C09).

Written from CiA 301 (communication parameter objects 1400h-15FFh / 1800h-19FFh, mapping parameter
objects 1600h-17FFh / 1A00h-1BFFh), not from the library.  Gallina twin: coq/theories/Model/StrictDevice.v.

It stands behind a RemoteNode in place of the SDO transport: `attach(node, dev)` replaces
node.sdo.upload / node.sdo.download.  Every download request is logged as (index, sub, value, verdict)
with verdict None (accepted) or the SDO abort code.

Rules (strict mode 0):
 * a register that does not exist cannot be written or read (0609 0011h);
 * data whose length differs from the register's CiA 301 type is refused (0607 0010h);
 * communication parameter: sub 0 read-only (0601 0002h); while the PDO is valid (bit 31 of sub 1 is 0)
   sub 1 may only be written with bit 31 set or with bits 0..30 unchanged (0609 0030h) and no other
   sub-entry may be written (0800 0022h);
 * mapping parameter: refused while the PDO is valid (0800 0022h); an entry (sub >= 1) is refused unless
   the count is 0 (0800 0022h) and the word index<<16 | sub<<8 | bits names a mappable object of the
   device with 1 <= bits <= its size (0604 0041h); a count n > 0 is refused unless entries 1..n exist and
   are mappable (0604 0041h) and total at most 64 bits (0604 0042h).
Mode 1: a device with a read-only count (0601 0002h) that takes entries at any count, and the null entry 0
(unused slot).
Mode 2: accepts every write that fits an existing register.
Fault injection (histories): begin_op(fail_download_at=k, fail_upload_reg=(i, s)); reset(regs).
"""
from canopen.sdo import SdoAbortedError

MODE_STRICT, MODE_RO_COUNT, MODE_LENIENT = 0, 1, 2
AB_NO_SUB = 0x06090011
AB_LENGTH = 0x06070010
AB_READ_ONLY = 0x06010002
AB_VALUE = 0x06090030
AB_STATE = 0x08000022
AB_NOT_MAPPABLE = 0x06040041
AB_PDO_LENGTH = 0x06040042
AB_DEVICE = 0x08000020


def is_com(i):
    return 0x1400 <= i < 0x1600 or 0x1800 <= i < 0x1A00


def is_map(i):
    return 0x1600 <= i < 0x1800 or 0x1A00 <= i < 0x1C00


def reg_bytes(i, s):
    if is_com(i):
        return {1: 4, 3: 2, 5: 2}.get(s, 1)
    if is_map(i):
        return 1 if s == 0 else 4
    return 4


class StrictPdoDevice:
    def __init__(self, regs, objs, mode=MODE_STRICT):
        """regs: {(index, sub): value}; objs: iterable of (index, sub, bits) mappable objects"""
        self.regs = dict(regs)
        self.objs = {(i, s): b for i, s, b in objs}
        self.mode = mode
        self.log = []
        # fault injection for histories: the k-th download of the current operation is aborted (0800 0022h,
        # whatever the rules say), every upload of one register is aborted (0800 0020h)
        self.fail_download_at = 0
        self.fail_upload_reg = None
        self.op_downloads = 0

    def begin_op(self, fail_download_at=0, fail_upload_reg=None):
        """start a new operation: returns the position in the log where it starts"""
        self.fail_download_at = fail_download_at
        self.fail_upload_reg = fail_upload_reg
        self.op_downloads = 0
        return len(self.log)

    def reset(self, regs):
        """the device comes back (power cycle / configured by someone else) with these registers"""
        self.regs = dict(regs)

    # ---- rules
    def valid(self, com):
        v = self.regs.get((com, 1))
        return v is not None and (v >> 31) & 1 == 0

    def entry_ok(self, w):
        bits = self.objs.get((w >> 16, (w >> 8) & 0xFF))
        return bits is not None and 1 <= (w & 0xFF) <= bits

    def check(self, i, s, data):
        if (i, s) not in self.regs:
            return AB_NO_SUB
        if len(data) != reg_bytes(i, s):
            return AB_LENGTH
        v = int.from_bytes(data, "little")
        if self.mode == MODE_LENIENT:
            return None
        if is_com(i):
            if s == 0:
                return AB_READ_ONLY
            if s == 1:
                old = self.regs[(i, 1)]
                if self.valid(i) and not (v >> 31) & 1 and (v & 0x7FFFFFFF) != (old & 0x7FFFFFFF):
                    return AB_VALUE
                return None
            return AB_STATE if self.valid(i) else None
        if is_map(i):
            if self.valid(i - 0x200):
                return AB_STATE
            if s == 0:
                if self.mode == MODE_RO_COUNT:
                    return AB_READ_ONLY
                total = 0
                for k in range(1, v + 1):
                    w = self.regs.get((i, k))
                    if w is None or not self.entry_ok(w):
                        return AB_NOT_MAPPABLE
                    total += w & 0xFF
                return AB_PDO_LENGTH if total > 64 else None
            if self.mode != MODE_RO_COUNT and self.regs.get((i, 0)) != 0:
                return AB_STATE
            if self.entry_ok(v) or (self.mode == MODE_RO_COUNT and v == 0):
                return None
            return AB_NOT_MAPPABLE
        return None

    # ---- SdoClient interface used by SdoVariable
    def download(self, index, subindex, data, force_segment=False):
        data = bytes(data)
        self.op_downloads += 1
        if self.op_downloads == self.fail_download_at:
            self.log.append((index, subindex, int.from_bytes(data, "little"), AB_STATE))
            raise SdoAbortedError(AB_STATE)
        verdict = self.check(index, subindex, data)
        self.log.append((index, subindex, int.from_bytes(data, "little"), verdict))
        if verdict is not None:
            raise SdoAbortedError(verdict)
        self.regs[(index, subindex)] = int.from_bytes(data, "little")

    def upload(self, index, subindex):
        if self.fail_upload_reg == (index, subindex):
            raise SdoAbortedError(AB_DEVICE)
        v = self.regs.get((index, subindex))
        if v is None:
            raise SdoAbortedError(AB_NO_SUB)
        return v.to_bytes(reg_bytes(index, subindex), "little")


def attach(node, dev):
    node.sdo.upload = dev.upload
    node.sdo.download = dev.download
