"""Reference CiA 402 drive (power drive system state machine), written from the standard
(IEC 61800-7-201 / CiA 402-2), NOT from canopen/profiles/p402.py.

Statusword patterns (mask, value), controlword commands and the transition numbers are those of the
standard's state-machine figure and command table.  Automatic transitions 1 (NOT READY TO SWITCH ON ->
SWITCH ON DISABLED) and 14 (FAULT REACTION ACTIVE -> FAULT) fire at a moment the master does not
control: `sched` is a list of booleans consumed at every status read, saying whether the pending
automatic transition fires before that read; when it is exhausted the transition fires.
The drive reacts to a controlword synchronously.  Gallina twin: coq/theories/Model/RefDrive.v.
"""

NR, SOD, RTSO, SO, OE, QSA, FRA, FLT = range(8)
NAMES = ["NOT READY TO SWITCH ON", "SWITCH ON DISABLED", "READY TO SWITCH ON", "SWITCHED ON",
         "OPERATION ENABLED", "QUICK STOP ACTIVE", "FAULT REACTION ACTIVE", "FAULT"]
# xxxx xxxx x0xx 0000 / x1xx 0000 / x01x 0001 / x01x 0011 / x01x 0111 / x00x 0111 / x0xx 1111 / x0xx 1000
PATTERN = {NR: (0x4F, 0x00), SOD: (0x4F, 0x40), RTSO: (0x6F, 0x21), SO: (0x6F, 0x23), OE: (0x6F, 0x27),
           QSA: (0x6F, 0x07), FRA: (0x4F, 0x0F), FLT: (0x4F, 0x08)}
COMMANDABLE = (SOD, RTSO, SO, OE, QSA)


def cia_states_of(sw):
    """all CiA 402 states whose statusword pattern matches sw"""
    return [s for s in range(8) if sw & PATTERN[s][0] == PATTERN[s][1]]


def cia_decode(sw):
    m = cia_states_of(sw)
    if len(m) == 1:
        return NAMES[m[0]]
    return "UNKNOWN" if not m else "AMBIGUOUS"


def enables_operation(cw):
    """controlword command 'enable operation' (also 'switch on + enable operation'): 0xxx 1111"""
    return cw & 0x8F == 0x0F


def command_path(st, cw, last7):
    shutdown = cw & 0x87 == 0x06
    switch_on = cw & 0x8F == 0x07          # = disable operation
    enable_op = cw & 0x8F == 0x0F
    disable_voltage = cw & 0x82 == 0x00
    quick_stop = cw & 0x86 == 0x02
    if st in (NR, FRA):
        return []
    if st == FLT:
        return [SOD] if (cw & 0x80) and not last7 else []          # 15: rising edge of fault reset
    if st == SOD:
        return [RTSO] if shutdown else []                          # 2
    if st == RTSO:
        if disable_voltage or quick_stop: return [SOD]             # 7
        if switch_on: return [SO]                                  # 3
        if enable_op: return [SO, OE]                              # 3 + 4
        return []
    if st == SO:
        if disable_voltage or quick_stop: return [SOD]             # 10
        if shutdown: return [RTSO]                                 # 6
        if enable_op: return [OE]                                  # 4
        return []
    if st == OE:
        if disable_voltage: return [SOD]                           # 9
        if quick_stop: return [QSA]                                # 11
        if shutdown: return [RTSO]                                 # 8
        if switch_on: return [SO]                                  # 5
        return []
    if st == QSA:
        if disable_voltage: return [SOD]                           # 12
        if enable_op: return [OE]                                  # 16
        return []
    raise AssertionError(st)


class Drive402:
    def __init__(self, state, sched=(), extra=0, on_change=None):
        self.state = state
        self.sched = [bool(b) for b in sched]
        self.extra = extra
        self.last7 = False
        self.cws = []
        self.trace = []
        self.reads = 0
        self.on_change = on_change      # called with the new statusword after every state change (TPDO)

    def statusword(self):
        m, v = PATTERN[self.state]
        return (v | (self.extra & ~m)) & 0xFFFF

    def _enter(self, st):
        self.state = st
        self.trace.append(st)
        if self.on_change:
            self.on_change(self.statusword())

    def read_status(self):
        """one status read by the master (SDO upload of 0x6041, or a look at the last TPDO)"""
        fire = self.sched.pop(0) if self.sched else True
        if fire:
            if self.state == NR: self._enter(SOD)
            elif self.state == FRA: self._enter(FLT)
        self.reads += 1
        return self.statusword()

    def write_controlword(self, cw):
        self.cws.append(cw)
        path = command_path(self.state, cw, self.last7)
        self.last7 = bool(cw & 0x80)
        for st in path:
            self._enter(st)


class LaggedDrive402(Drive402):
    """A conformant drive that needs `latency` seconds (on the clock `now()`) to perform a commanded
    transition: until then status reads show the old state.  Automatic transitions follow `sched` as before."""
    def __init__(self, state, sched, extra, now, latency):
        super().__init__(state, sched, extra)
        self.now, self.latency, self.pending = now, latency, None

    def _settle(self):
        if self.pending is not None and self.now() >= self.pending[0]:
            path, self.pending = self.pending[1], None
            for st in path:
                self._enter(st)

    def read_status(self):
        self._settle()
        return super().read_status()

    def write_controlword(self, cw):
        self._settle()
        self.cws.append(cw)
        path = command_path(self.state, cw, self.last7)
        self.last7 = bool(cw & 0x80)
        self.pending = (self.now() + self.latency, path) if path else None


# ---- operation modes: object 0x6060 codes and the bit of each mode in 0x6502 (CiA 402) ----
MODES = {"NO MODE": (0, None), "PROFILED POSITION": (1, 0), "VELOCITY": (2, 1), "PROFILED VELOCITY": (3, 2),
         "PROFILED TORQUE": (4, 3), "HOMING": (6, 5), "INTERPOLATED POSITION": (7, 6),
         "CYCLIC SYNCHRONOUS POSITION": (8, 7), "CYCLIC SYNCHRONOUS VELOCITY": (9, 8),
         "CYCLIC SYNCHRONOUS TORQUE": (10, 9)}


class ModeDrive:
    """0x6502 supported modes, 0x6060 written, 0x6061 displays a written mode after `lag` further reads"""
    def __init__(self, support, display, lag=0, on_change=None):
        self.support, self.display, self.lag = support, display, lag
        self.pending, self.wait = None, 0
        self.writes, self.reads, self.support_reads = [], 0, 0
        self.on_change = on_change

    def write_mode(self, code):
        self.writes.append(code)
        if self.lag == 0:
            self.display, self.pending = code, None
            if self.on_change: self.on_change(self.display)
        else:
            self.pending, self.wait = code, self.lag

    def read_display(self):
        self.reads += 1
        if self.pending is not None:
            if self.wait == 0:
                self.display, self.pending = self.pending, None
                if self.on_change: self.on_change(self.display)
            else:
                self.wait -= 1
        return self.display

    def read_support(self):
        self.support_reads += 1
        return self.support
