"""Reference peer for C02 / C06: a conformant CiA 301 SDO client (normal transfers) that validates
every server response, the well-formedness rules for server responses to arbitrary request
frames, and the object-dictionary semantics the properties speak about (access types, value
sources and their precedence, CiA 301 encodings).  Written from the standard and the property
text, not from the library and not from the Coq model.  Gallina twin of the client and of
resp_wf: coq/theories/Model/RefClient.v (tied by the correspondence check).

A server is a function  step(frame: bytes) -> (responses: list[bytes], raised: bool).
"""
import math
from vlib.obs import Err, Abort

V_COUNT, V_ABORT_MUX, V_INIT, V_PAD, V_SEG, V_SIZE, V_USAGE = 201, 202, 203, 204, 205, 206, 207
E_FUEL = 99
VNAMES = {201: "not exactly one 8-byte response / server raised", 202: "abort names another multiplexer",
          203: "malformed initiate response", 204: "unused bytes not zero", 205: "segment response scs/toggle wrong",
          206: "announced size / last-segment flag wrong", 207: "usage", 99: "endless transfer"}
CLIENT_FUEL = 3000

# CiA 301 abort codes (from the standard)
AB_TOGGLE, AB_COMMAND = 0x05030000, 0x05040001
AB_WRITEONLY, AB_READONLY, AB_NOOBJECT = 0x06010001, 0x06010002, 0x06020000
AB_LENGTH, AB_NOSUB, AB_NOVALUE, AB_GENERAL = 0x06070010, 0x06090011, 0x060A0023, 0x08000000


def mux_bytes(idx, sub):
    return bytes([idx % 256, (idx // 256) % 256, sub])


def one_resp(rs, raised):
    if raised or len(rs) != 1 or len(rs[0]) != 8:
        return None
    return rs[0]


def abort_result(idx, sub, f):
    if f[1] + 256 * f[2] == idx and f[3] == sub:
        return Abort(int.from_bytes(f[4:8], "little"))
    return Err(V_ABORT_MUX)


def ref_upload(step, idx, sub, fuel=CLIENT_FUEL):
    """-> (bytes | Abort(code) | Err(violation), trace of response frames)"""
    rs, raised = step(bytes([0x40]) + mux_bytes(idx, sub) + bytes(4))
    tr = list(rs)
    f = one_resp(rs, raised)
    if f is None:
        return Err(V_COUNT), tr
    c = f[0]
    if c == 0x80:
        return abort_result(idx, sub, f), tr
    if not (c // 32 == 2 and (c // 16) % 2 == 0 and f[1] + 256 * f[2] == idx and f[3] == sub):
        return Err(V_INIT), tr
    e, s, n = (c // 2) % 2, c % 2, (c // 4) % 4
    d = f[4:8]
    if e == 1:
        if s == 0 and n != 0:
            return Err(V_INIT), tr
        k = 4 - n
        if any(d[k:]):
            return Err(V_PAD), tr
        return bytes(d[:k]), tr
    if n != 0:
        return Err(V_INIT), tr
    if s == 1:
        size = int.from_bytes(d, "little")
    else:
        if any(d):
            return Err(V_PAD), tr
        size = None
    acc = b""
    t = 0
    for _ in range(fuel):
        rs, raised = step(bytes([0x60 + 16 * t]) + bytes(7))
        tr += list(rs)
        f = one_resp(rs, raised)
        if f is None:
            return Err(V_COUNT), tr
        c = f[0]
        if c == 0x80:
            return abort_result(idx, sub, f), tr
        if not (c // 32 == 0 and (c // 16) % 2 == t):
            return Err(V_SEG), tr
        n = (c // 2) % 8
        last = c % 2 == 1
        k = 7 - n
        if any(f[1 + k:]):
            return Err(V_PAD), tr
        acc += bytes(f[1:1 + k])
        complete = (len(acc) == size) if size is not None else last
        over = size is not None and size < len(acc)
        if over or last != complete:
            return Err(V_SIZE), tr
        if last:
            return acc, tr
        t = 1 - t
    return Err(E_FUEL), tr


def download_request(idx, sub, data, mode):
    n = len(data)
    if mode == 0:
        return bytes([35 + 4 * (4 - n)]) + mux_bytes(idx, sub) + bytes(data).ljust(4, b"\0") if 1 <= n <= 4 else None
    if mode == 1:
        return bytes([34]) + mux_bytes(idx, sub) + bytes(data) if n == 4 else None
    if mode == 2:
        return bytes([33]) + mux_bytes(idx, sub) + n.to_bytes(4, "little") if n < 2 ** 32 else None
    if mode == 3:
        return bytes([32]) + mux_bytes(idx, sub) + bytes(4)
    return None


def ref_download(step, idx, sub, data, mode, fuel=CLIENT_FUEL):
    """-> (b'' on success | Abort(code) | Err(violation), trace)"""
    data = bytes(data)
    req = download_request(idx, sub, data, mode)
    if req is None:
        return Err(V_USAGE), []
    rs, raised = step(req)
    tr = list(rs)
    f = one_resp(rs, raised)
    if f is None:
        return Err(V_COUNT), tr
    if f[0] == 0x80:
        return abort_result(idx, sub, f), tr
    if not (f[0] == 0x60 and f[1] + 256 * f[2] == idx and f[3] == sub and not any(f[4:8])):
        return Err(V_INIT), tr
    if mode < 2:
        return b"", tr
    rest = data
    t = 0
    for _ in range(fuel):
        chunk, rest = rest[:7], rest[7:]
        last = len(rest) == 0
        cmd = 16 * t + 2 * (7 - len(chunk)) + (1 if last else 0)
        rs, raised = step(bytes([cmd]) + chunk.ljust(7, b"\0"))
        tr += list(rs)
        f = one_resp(rs, raised)
        if f is None:
            return Err(V_COUNT), tr
        if f[0] == 0x80:
            return abort_result(idx, sub, f), tr
        if f[0] == 32 + 16 * t and not any(f[1:8]):
            if last:
                return b"", tr
            t = 1 - t
            continue
        return Err(V_SEG), tr
    return Err(E_FUEL), tr


# ------------------------------------------------------------------ one well-formed response per request
def frame_mux(req):
    return (req[1] + 256 * req[2], req[3]) if len(req) >= 4 else None


def initiating(ccs):
    return ccs in (1, 2, 5)


def next_mux(cur, req):
    if req and initiating(req[0] // 32) and len(req) >= 4:
        return frame_mux(req)
    return cur


def permissive_mux(cur, req, m):
    return m == cur or m == (0, 0) or (frame_mux(req) is not None and m == frame_mux(req))


def resp_wf(cur, req, rs, raised):
    """None if the server's reaction to request frame req is what the property demands, else (signature, detail).
    cur = multiplexer of the running transfer (latest initiate request carrying one; (0, 0) before any)."""
    if len(req) == 0:
        return None                           # outside the property (CAN frames of 1..8 bytes)
    c = req[0]
    ccs = c // 32
    if raised:
        return ("server_raised", f"request {bytes(req).hex()} made on_request raise into the receive path")
    if len(rs) == 0:
        if ccs == 4:
            return None
        return ("server_silent", f"request {bytes(req).hex()} drew no response")
    if len(rs) != 1:
        return ("several_responses", f"request {bytes(req).hex()} drew {len(rs)} responses")
    r = rs[0]
    if len(r) != 8:
        return ("response_not_8_bytes", f"request {bytes(req).hex()} -> {bytes(r).hex()}")
    m = (r[1] + 256 * r[2], r[3])
    fm = frame_mux(req)
    what = f"request {bytes(req).hex()} -> {bytes(r).hex()} (running transfer {cur[0]:04X}:{cur[1]:02X})"
    if ccs == 4:
        if len(req) >= 8:
            return ("response_to_client_abort", what)
        if r[0] != 0x80 or not permissive_mux(cur, req, m):
            return ("malformed_response", what)
        return None
    if r[0] == 0x80:
        if initiating(ccs):
            ok = (m == fm) if fm is not None else permissive_mux(cur, req, m)
        elif ccs in (0, 3):
            ok = m == cur
        else:
            ok = permissive_mux(cur, req, m)
        return None if ok else ("abort_wrong_multiplexer", what)
    rc = r[0]
    if ccs in (2, 5):
        if not (rc // 32 == 2 and (rc // 16) % 2 == 0):
            return ("malformed_response", what)
        if fm is None or m != fm:
            return ("response_wrong_multiplexer", what)
        e, s, n = (rc // 2) % 2, rc % 2, (rc // 4) % 4
        if e == 1:
            ok = (not any(r[4 + (4 - n):8])) if s == 1 else n == 0
        else:
            ok = n == 0 and (s == 1 or not any(r[4:8]))
        return None if ok else ("malformed_response", what)
    if ccs == 3:
        ok = rc // 32 == 0 and (rc // 16) % 2 == (c // 16) % 2 and not any(r[1 + 7 - (rc // 2) % 8:8])
        return None if ok else ("malformed_response", what)
    if ccs == 1:
        if rc != 0x60 or any(r[4:8]):
            return ("malformed_response", what)
        return None if (fm is not None and m == fm) else ("response_wrong_multiplexer", what)
    if ccs == 0:
        ok = rc == 32 + 16 * ((c // 16) % 2) and not any(r[1:8])
        return None if ok else ("malformed_response", what)
    return ("unsupported_command_not_aborted", what)


# ------------------------------------------------------------------ object dictionary semantics (property text)
# a case dictionary is a list of objects
#   {"index": i, "kind": "var" | "rec" | "arr", "subs": [{"sub": s, "dt": t|None, "acc": "rw", "default": val|None, "value": val|None}]}
# val:  {"i": int} | {"b": [bytes]} | {"s": [code points]} | {"f": bits}
INT_TYPES = {0x02: (True, 8), 0x03: (True, 16), 0x10: (True, 24), 0x04: (True, 32), 0x12: (True, 40),
             0x13: (True, 48), 0x14: (True, 56), 0x15: (True, 64),
             0x05: (False, 8), 0x06: (False, 16), 0x16: (False, 24), 0x07: (False, 32), 0x18: (False, 40),
             0x19: (False, 48), 0x1A: (False, 56), 0x1B: (False, 64)}
BOOLEAN, REAL32, REAL64, VISIBLE, OCTET, UNICODE, DOMAIN = 1, 8, 0x11, 9, 0xA, 0xB, 0xF
REALS = {REAL32: (8, 23), REAL64: (11, 52)}
NUMERIC_BYTES = {**{t: w // 8 for t, (_, w) in INT_TYPES.items()}, REAL32: 4, REAL64: 8}


def bits_to_float(bits, eb, mb):
    sign = -1.0 if bits >> (eb + mb) else 1.0
    e = (bits >> mb) & ((1 << eb) - 1)
    m = bits & ((1 << mb) - 1)
    bias = (1 << (eb - 1)) - 1
    if e == (1 << eb) - 1:
        return sign * math.inf if m == 0 else math.nan
    if e == 0:
        return sign * math.ldexp(m, 1 - bias - mb)
    return sign * math.ldexp((1 << mb) | m, e - bias - mb)


def lookup(dic, idx, sub):
    """-> entry dict, or the abort code the standard prescribes for a missing object / sub-index"""
    for o in dic:
        if o["index"] == idx:
            subs = {e["sub"]: e for e in o["subs"]}
            if o["kind"] == "var":
                return o["subs"][0] if sub == 0 else AB_NOSUB
            if sub in subs:
                return subs[sub]
            if o["kind"] == "arr" and 1 <= sub <= 255 and 1 in subs:
                t = subs[1]     # arrays answer any sub-index 1..255 from the first element (no parameter value)
                return dict(sub=sub, dt=t["dt"], acc=t["acc"], default=t["default"], value=None)
            return AB_NOSUB
    return AB_NOOBJECT


def readable(e): return e["acc"] in ("rw", "ro", "const", "rwr", "rww")
def writable(e): return e["acc"] in ("rw", "wo", "rwr", "rww")


def encode_value(dt, v):
    """CiA 301 representation of a typed value; None when the standard/property makes no statement
    (value does not fit the type, type/value kind mismatch)."""
    if v is None:
        return None
    if "b" in v:
        return bytes(v["b"])
    if "i" in v:
        if dt in INT_TYPES:
            signed, w = INT_TYPES[dt]
            lo, hi = (-(1 << (w - 1)), (1 << (w - 1)) - 1) if signed else (0, (1 << w) - 1)
            return v["i"].to_bytes(w // 8, "little", signed=signed) if lo <= v["i"] <= hi else None
        if dt == BOOLEAN:
            return bytes([1 if v["i"] else 0])
        return None
    if "f" in v:
        if dt in REALS:
            return v["f"].to_bytes(4 if dt == REAL32 else 8, "little")
        return None
    if "s" in v:
        cps = v["s"]
        if dt == VISIBLE:
            return bytes(cps) if all(0 <= x < 128 for x in cps) else None
        if dt == UNICODE:
            if not all(0 <= x < 0x110000 and not 0xD800 <= x < 0xE000 for x in cps):
                return None
            out = b""
            for x in cps:
                if x < 0x10000:
                    out += x.to_bytes(2, "little")
                else:
                    x -= 0x10000
                    out += (0xD800 + (x >> 10)).to_bytes(2, "little") + (0xDC00 + (x & 0x3FF)).to_bytes(2, "little")
            return out
        return None
    return None


class RefNode:
    """What the property says a node must hold / serve.  Follows the transfers of the case."""

    def __init__(self, dic, rcb, store, wcb=()):
        self.dic = dic
        self.rcb = {(i, s): v for i, s, v in reversed(rcb)}
        self.store = {(i, s): bytes(b) for i, s, b in store}
        self.wcb = [list(x) for x in wcb]     # application write callbacks that refuse: [idx, sub, data | None, action]

    def veto(self, idx, sub, data):
        """the action {"abort": code} | {"exc": 1} of the first write-callback rule refusing this write, or None.
        A refused write must leave the node as it was (the callback is the application's way to reject a value)."""
        for i, s, m, act in self.wcb:
            if (i, s) == (idx, sub) and (m is None or bytes(m) == bytes(data)):
                return act
        return None

    def expected_upload(self, idx, sub):
        """-> ("abort", {codes}) | ("data", bytes) | ("any", None)"""
        e = lookup(self.dic, idx, sub)
        if isinstance(e, int):
            return ("abort", {e})
        if not readable(e):
            return ("abort", {AB_WRITEONLY})
        for src in (self.rcb.get((idx, sub)),):
            if src is not None:
                if "abort" in src:
                    return ("abort", {src["abort"]})      # the application refuses the read with this code
                if "exc" in src:
                    return ("any", None)
                b = encode_value(e["dt"], src)
                return ("data", b) if b is not None else ("any", None)
        if (idx, sub) in self.store:
            return ("data", self.store[(idx, sub)])
        for src in (e["value"], e["default"]):
            if src is not None:
                b = encode_value(e["dt"], src)
                return ("data", b) if b is not None else ("any", None)
        return ("abort", {AB_NOVALUE})

    def expected_download(self, idx, sub, data):
        """-> ("abort", {codes}) | ("ok", None)"""
        e = lookup(self.dic, idx, sub)
        if isinstance(e, int):
            return ("abort", {e})
        codes = set()
        if not writable(e):
            codes.add(AB_READONLY)
        if e["dt"] in NUMERIC_BYTES and len(data) != NUMERIC_BYTES[e["dt"]]:
            codes.add(AB_LENGTH)
        return ("abort", codes) if codes else ("ok", None)
