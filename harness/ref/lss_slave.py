"""Reference LSS slave written from CiA 305 (Layer Setting Services and protocols), not from the library.

One device with a 128-bit LSS address (vendor id, product code, revision number, serial number):
  * LSS waiting / LSS configuration state, switch state global (0x04) and selective (0x40..0x43 -> 0x44);
  * fast scan (0x51 -> 0x4F): LSSPos, IDNumber / BitCheck mask compare, LSSSub / LSSNext, BitCheck 0x80 resets,
    the final confirm (BitCheck 0, LSSNext < LSSSub) switches the slave to configuration state; only a
    non-configured slave (node-id 255) in waiting state takes part;
  * configure node-id (0x11), configure bit timing (0x13), activate bit timing (0x15), store (0x17),
    inquire identity parts (0x5A..0x5D) and node-id (0x5E) in configuration state;
  * identify remote slave (0x46..0x4B -> 0x4F), identify non-configured remote slave (0x4C -> 0x50).
Requests are accepted only as 8-byte frames on COB-ID 0x7E5; every reply is an 8-byte frame on 0x7E4 with the
unused bytes zero.  Gallina twin: coq/theories/Model/RefLssSlave.v.
"""
MASTER_COBID = 0x7E5
SLAVE_COBID = 0x7E4
WAITING, CONFIGURATION = 0, 1
UNCONFIGURED = 0xFF


def u32(f, off):
    return int.from_bytes(bytes(f[off:off + 4]), "little")


class LssSlave:
    def __init__(self, ident, mode=WAITING, node=UNCONFIGURED, pos=0, sel=0, idn=0, bt=0, delay=0,
                 st_node=0, st_bt=0, store_err=0):
        self.ident = [int(x) for x in ident]
        assert len(self.ident) == 4 and all(0 <= x < 1 << 32 for x in self.ident)
        self.mode, self.node, self.pos, self.sel, self.idn = mode, node, pos, sel, idn
        self.bt, self.delay, self.st_node, self.st_bt, self.store_err = bt, delay, st_node, st_bt, store_err

    def state(self):
        return [self.mode, self.node, self.pos, self.sel, self.idn, self.bt, self.delay, self.st_node, self.st_bt]

    @staticmethod
    def _reply(*head):
        return [(SLAVE_COBID, bytes(head) + bytes(8 - len(head)))]

    def on_frame(self, can_id, data):
        """Returns the list of (cob-id, data) frames the slave sends in reaction."""
        f = bytes(data)
        if can_id != MASTER_COBID or len(f) != 8:
            return []
        cs = f[0]
        if cs == 0x04:                                   # switch state global
            if f[1] in (WAITING, CONFIGURATION):
                self.mode = f[1]
            return []
        if cs == 0x51:                                   # fast scan
            return self._fastscan(f)
        if 0x40 <= cs <= 0x43:                           # switch state selective
            return self._selective(cs, f)
        if 0x46 <= cs <= 0x4B:                           # identify remote slave
            return self._identify(cs, f)
        if cs == 0x4C:                                   # identify non-configured remote slave
            return self._reply(0x50) if self.node == UNCONFIGURED else []
        if self.mode == CONFIGURATION:
            return self._config(cs, f)
        return []

    def _fastscan(self, f):
        if not (self.mode == WAITING and self.node == UNCONFIGURED):
            return []
        idnumber, bitcheck, lsssub, lssnext = u32(f, 1), f[5], f[6], f[7]
        if bitcheck == 0x80:
            self.pos = 0
            return self._reply(0x4F)
        if bitcheck > 31 or lsssub > 3 or lssnext > 3 or lsssub != self.pos:
            return []
        mask = (0xFFFFFFFF << bitcheck) & 0xFFFFFFFF
        if (self.ident[lsssub] & mask) != (idnumber & mask):
            return []
        self.pos = lssnext
        if bitcheck == 0 and lssnext < lsssub:
            self.mode = CONFIGURATION
        return self._reply(0x4F)

    def _selective(self, cs, f):
        if self.mode != WAITING:
            return []
        k = cs - 0x40
        ok = (k == 0 or self.sel == k) and u32(f, 1) == self.ident[k]
        if cs == 0x43:
            self.sel = 0
            if ok:
                self.mode = CONFIGURATION
                return self._reply(0x44)
            return []
        self.sel = k + 1 if ok else 0
        return []

    def _identify(self, cs, f):
        k = cs - 0x46
        x = u32(f, 1)
        v, p, r, s = self.ident
        hit = [x == v, x == p, x <= r, r <= x, x <= s, s <= x][k]
        ok = (k == 0 or self.idn == k) and hit
        if cs == 0x4B:
            self.idn = 0
            return self._reply(0x4F) if ok else []
        self.idn = k + 1 if ok else 0
        return []

    def _config(self, cs, f):
        if cs == 0x11:                                   # configure node-id
            n = f[1]
            if 1 <= n <= 127 or n == UNCONFIGURED:
                self.node = n
                return self._reply(cs, 0)
            return self._reply(cs, 1)                    # node-id out of range
        if cs == 0x13:                                   # configure bit timing (table selector, table index)
            if f[1] == 0 and f[2] <= 8:
                self.bt = f[2]
                return self._reply(cs, 0)
            return self._reply(cs, 1)                    # bit timing not supported
        if cs == 0x15:                                   # activate bit timing (switch delay, little endian)
            self.delay = f[1] | f[2] << 8
            return []
        if cs == 0x17:                                   # store configuration
            if self.store_err == 0:
                self.st_node, self.st_bt = self.node, self.bt
            return self._reply(cs, self.store_err)
        if 0x5A <= cs <= 0x5D:                           # inquire identity part
            return [(SLAVE_COBID, bytes([cs]) + self.ident[cs - 0x5A].to_bytes(4, "little") + bytes(3))]
        if cs == 0x5E:                                   # inquire node-id
            return self._reply(cs, self.node)
        return []


class ScriptPeer:
    """Reacts to the i-th frame it sees with the i-th scripted list of frames (fault injection)."""
    def __init__(self, script):
        self.script = [[(int(c), bytes(d)) for c, d in step] for step in script]

    def state(self):
        return len(self.script)

    def on_frame(self, can_id, data):
        if not self.script:
            return []
        return self.script.pop(0)
