"""C07 with the LIBRARY's own server as the peer: RemoteNode.sdo (client) against LocalNode.sdo (server) on one
synchronous bus; exactly one disturbance hits the k-th server response of the first transfer; then undisturbed
transfers on the same client and the same server follow.  Oracle only (no Coq model for this closed system; the
client side is modelled in C01/C07, the server side in C02/C06)."""
import logging
from vlib.obs import Err, Abort, guarded, canon_exc

logging.disable(logging.CRITICAL)
FAULTS = ["lost", "abort", "toggle", "spec", "mux", "muxsub", "dup", "stale"]
IDX, IDX2 = 0x2000, 0x2001


def setup():
    import canopen
    from canopen import objectdictionary as odm
    od = odm.ObjectDictionary()
    for i in (IDX, IDX2):
        v = odm.ODVariable(f"dom{i:x}", i, 0)
        v.data_type = odm.DOMAIN
        od.add_object(v)

    class Net(canopen.Network):
        def __init__(self):
            super().__init__()
            self.log = []
            self.fault = None          # (k, kind) applied to the k-th server response from now on
            self.nresp = 0
            self.last_resp = None
        def send_message(self, can_id, data, remote=False):
            data = bytes(data)
            self.log.append([can_id, data])
            if can_id == 0x585:        # server -> client
                k, kind = self.fault if self.fault else (None, None)
                idx = self.nresp
                self.nresp += 1
                prev = self.last_resp
                self.last_resp = data
                if k == idx:
                    self.fault = None
                    if kind == "lost":
                        return
                    if kind == "abort":
                        data = bytes([0x80]) + data[1:4] + (0x08000000).to_bytes(4, "little")
                    elif kind == "toggle":
                        data = bytes([data[0] ^ 0x10]) + data[1:]
                    elif kind == "spec":
                        data = bytes([data[0] ^ 0x40]) + data[1:]
                    elif kind == "mux":
                        data = data[:1] + bytes([data[1] ^ 1]) + data[2:]
                    elif kind == "muxsub":      # the answer to a request for a sibling sub-index, with its own data
                        data = data[:3] + bytes([data[3] ^ 1]) + bytes(x ^ 0x5A for x in data[4:])
                    elif kind == "dup":
                        self.notify(can_id, bytearray(data), 0.0)
                    elif kind == "stale" and prev is not None:
                        self.notify(can_id, bytearray(prev), 0.0)
            self.notify(can_id, bytearray(data), 0.0)

    net = Net()
    loc = canopen.LocalNode(5, od)
    rem = canopen.RemoteNode(5, od)
    loc.associate_network(net)
    rem.associate_network(net)
    rem.sdo.RESPONSE_TIMEOUT = 0.002
    return net, loc, rem


def run(c):
    def go():
        net, loc, rem = setup()
        d0, d1, d2 = bytes(c["d0"]), bytes(c["d1"]), bytes(c["d2"])
        out = []
        rem.sdo.download(IDX, 0, d0, force_segment=True)            # clean start value
        out.append(bytes(loc.data_store[IDX][0]))
        net.nresp = 0
        net.fault = (c["k"], c["fault"])
        n0 = len(net.log)
        if c["dir"] == "dl":
            out.append(guarded(lambda: rem.sdo.download(IDX, 0, d1, force_segment=c["force"])))
        else:
            out.append(guarded(lambda: bytes(rem.sdo.upload(IDX, 0))))
        hit = net.fault is None
        net.fault = None
        out.append(bool(hit))
        out.append(bytes(loc.data_store[IDX][0]))
        # was the time-out abort sent after the disturbed exchange?
        out.append(any(cid == 0x605 and d[0] == 0x80 and int.from_bytes(d[4:8], "little") == 0x05040000
                       for cid, d in net.log[n0:]))
        # clean follow-ups on the same client and the same server
        out.append(guarded(lambda: rem.sdo.download(IDX, 0, d2, force_segment=c["force2"])))
        out.append(bytes(loc.data_store[IDX][0]))
        out.append(guarded(lambda: bytes(rem.sdo.upload(IDX, 0))))
        out.append(guarded(lambda: rem.sdo.download(IDX2, 0, d1)))
        out.append(guarded(lambda: bytes(rem.sdo.upload(IDX2, 0))))
        return out
    return guarded(go)


def check(c, o):
    if isinstance(o, Err) or not isinstance(o, list):
        return ("libsrv_crash", repr(o))
    d0, d1, d2 = bytes(c["d0"]), bytes(c["d1"]), bytes(c["d2"])
    start, first, hit, stored1, tmo_abort, second, stored2, back2, third, back3 = o
    where = f"{c['dir']} of {len(d1)} bytes, fault {c['fault']} at server response {c['k']} (hit={hit})"
    if start != d0:
        return ("libsrv_setup", f"start value {start!r}")
    sdo_err = isinstance(first, Abort) or (isinstance(first, Err) and first.kind == 5)
    if c["dir"] == "dl":
        if first is None:
            if stored1 != d1:
                return ("disturbed_success_with_wrong_data", f"{where}: download returned normally, server holds {stored1.hex()} not {d1.hex()}")
        elif not sdo_err:
            return ("disturbed_not_sdo_error", f"{where}: {first!r}")
    else:
        if isinstance(first, (bytes, bytearray)):
            if bytes(first) != d0:
                return ("disturbed_success_with_wrong_data", f"{where}: upload returned {bytes(first).hex()}, server holds {d0.hex()}")
        elif not sdo_err:
            return ("disturbed_not_sdo_error", f"{where}: {first!r}")
    if hit and c["fault"] == "lost" and not tmo_abort:
        return ("no_timeout_abort", f"{where}: no abort frame with code 0x05040000 after the lost response")
    if second is not None or stored2 != d2 or back2 != d2:
        return ("next_transfer_not_clean", f"{where}: follow-up download -> {second!r}, server holds {stored2.hex()} "
                                           f"(expected {d2.hex()}), read back {back2!r}")
    if third is not None or back3 != d1:
        return ("next_transfer_not_clean", f"{where}: follow-up on another object -> {third!r}, read back {back3!r}")
    return None


def gen(rng, tier):
    cases = []
    lens = [0, 1, 4, 5, 7, 8, 14, 15, 22]
    reps = {"quick": 1, "thorough": 4, "search": 2}[tier]
    for _ in range(reps):
        for n in lens:
            for direction in ("dl", "ul"):
                nresp = 2 + (n + 6) // 7 if direction == "dl" else 2 + (n + 6) // 7
                for k in range(min(nresp, 5)):
                    # a changed multiplexer exists only in the initiate response; in a segment the same bytes are
                    # payload, whose corruption CiA 301 cannot detect (outside the property)
                    kinds = [f for f in FAULTS if f not in ("mux", "muxsub") or k == 0]
                    if k == 0 and direction == "ul":
                        kinds = kinds + ["muxsub", "mux"]
                    for fault in (kinds if tier != "quick" else rng.sample(kinds, 3)):
                        d0 = [rng.randrange(256) for _ in range(n if direction == "ul" else rng.choice(lens))]
                        d1 = [rng.randrange(256) for _ in range(n)]
                        d2 = [rng.randrange(256) for _ in range(rng.choice(lens))]
                        cases.append(dict(kind="libsrv", model=False, dir=direction, k=k, fault=fault, d0=d0, d1=d1, d2=d2,
                                          force=(n > 4 or rng.random() < 0.5), force2=rng.random() < 0.7))
    return cases


# ------------------------------------------------------------------ C01: histories with an abandoned (partly read) upload
def run_partial(c):
    """open(buffering=b) + read(n) of part of the value, close; then whole uploads on the same client and on
    another node's client must return exactly the held values."""
    def go():
        import canopen
        net, loc, rem = setup()
        od = loc.object_dictionary
        loc2 = canopen.LocalNode(6, od); rem2 = canopen.RemoteNode(6, od)
        loc2.associate_network(net); rem2.associate_network(net)
        orig = net.send_message.__func__
        v1, v2, v3 = bytes(c["v1"]), bytes(c["v2"]), bytes(c["v3"])
        loc.data_store[IDX] = {0: v1}
        loc.data_store[IDX2] = {0: v2}
        loc2.data_store[IDX] = {0: v3}
        out = []
        def part():
            fp = rem.sdo.open(IDX, 0, "rb", buffering=c["buffering"])
            got = b""
            for n in c["reads"]:
                got += fp.read(n)
            fp.close()
            return got
        # node 6 answers on 0x586: deliver inline as well
        out.append(guarded(part))
        out.append(guarded(lambda: bytes(rem.sdo.upload(IDX2, 0))))
        out.append(guarded(lambda: bytes(rem2.sdo.upload(IDX, 0))))
        out.append(guarded(lambda: bytes(rem.sdo.upload(IDX, 0))))
        return out
    return guarded(go)


def check_partial(c, o):
    if isinstance(o, Err) or not isinstance(o, list):
        return ("partial_read_crash", repr(o))
    v1, v2, v3 = bytes(c["v1"]), bytes(c["v2"]), bytes(c["v3"])
    part, a, b, d = o
    n = sum(c["reads"])
    where = f"value of {len(v1)} bytes read as {c['reads']} through buffering={c['buffering']}, then closed"
    if isinstance(part, (bytes, bytearray)):
        if bytes(part) != v1[:len(part)] or (len(part) < min(n, len(v1))):
            return ("upload_wrong_data", f"{where}: partial read returned {bytes(part).hex()} of {v1.hex()}")
    elif not (isinstance(part, Abort) or (isinstance(part, Err) and part.kind == 5)):
        return ("upload_wrong_data", f"{where}: {part!r}")
    for got, exp, what in ((a, v2, "next upload (other object, same client)"), (b, v3, "next upload (other node)"),
                           (d, v1, "next upload (same object)")):
        if got != exp:
            return ("upload_after_abandoned_upload_wrong", f"{where}; {what} returned {got!r}, server holds {exp.hex()}")
    return None


def gen_partial(rng, tier):
    cases = []
    for _ in range({"quick": 40, "thorough": 400, "search": 80}[tier]):
        ln = rng.choice([1, 2, 3, 4, 5, 7, 8, 9, 14, 15, 20, 30])
        v1 = [rng.randrange(256) for _ in range(ln)]
        b = rng.choice([2, 3, 4, 5, 6, 7, 8, 16, 1024])
        reads, left = [], rng.randrange(1, ln + 1)
        while left > 0:
            k = rng.randrange(1, min(left, 6) + 1); reads.append(k); left -= k
        cases.append(dict(kind="libsrv_partial", model=False, v1=v1, buffering=b, reads=reads,
                          v2=[rng.randrange(256) for _ in range(rng.choice([1, 4, 5, 9]))],
                          v3=[rng.randrange(256) for _ in range(rng.choice([2, 4, 8, 15]))]))
    return cases
