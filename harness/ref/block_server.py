"""Reference peers for SDO block transfer (C12, C13), written from CiA 301 (7.2.4.3.9 - 7.2.4.3.16),
not from the canopen library.  Gallina twins: coq/theories/Model/RefBlockServer.v.

* ``RefBlockDlServer`` - block download server.  Announces one block size per sub-block from a list
  (the last one is repeated), accepts the segments of a sub-block only in sequence, acknowledges the
  last segment received in sequence, checks the CRC (when client cc and server sc are both set) and
  the indicated size, and commits the value on the end request.
* ``RefBlockUlServer`` - block upload server for one value.
* ``Faulty`` - fault injector wrapped around either: lost client frames, lost / corrupted / replaced /
  duplicated server frames, addressed by their global ordinal.
* ``SyncNet`` - a ``canopen.Network`` whose ``send_message`` hands the frame to the peer and delivers the
  answers inline (no threads); records the complete trace.

A server is ``handle(frame: bytes, lost: bool) -> list[bytes]``.  ``lost`` tells it that the client frame
did not arrive; the servers use this only to model their own time-out (a sub-block whose last segment is
lost is ended by the server's time-out, which is shorter than the client's): a lost segment still ends
the sub-block when it was its last one.

CRC: CRC-16/XMODEM bit by bit as CiA 301 describes it (``crc16``), no binascii.
"""
import struct

BAD_LEN, BAD_UNEXPECTED, BAD_SEQ, BAD_CRC, BAD_SIZE, BAD_BLKSIZE, BAD_ACK = 1, 2, 3, 4, 5, 6, 7


def crc16(data, crc=0):
    for b in data:
        crc ^= b << 8
        for _ in range(8):
            crc = ((crc << 1) & 0xFFFF) ^ 0x1021 if crc & 0x8000 else (crc << 1) & 0xFFFF
    return crc


def gen_bytes(n, x):
    out = bytearray()
    for _ in range(n):
        x = (x * 1103515245 + 12345) % 2147483648
        out.append((x // 65536) % 256)
    return bytes(out)


def payload_of(zeros, seed, n, lit):
    return bytes(zeros) + gen_bytes(n, seed) + bytes(lit)


HMASK = (1 << 61) - 1


def hash_frame(h, fr):
    h = (h * 1000003 + len(fr) + 257) & HMASK
    for b in fr:
        h = (h * 1000003 + b + 1) & HMASK
    return h


def hash_log(log):
    h = 7
    for fr in log:
        h = hash_frame(h, fr)
    return h


def abort_frame(mux, code):
    return bytes([0x80]) + bytes(mux) + struct.pack("<L", code)


class _Blks:
    def __init__(self, blks):
        self.blks = list(blks)

    def next(self):
        if len(self.blks) > 1:
            return self.blks.pop(0)
        return self.blks[0] if self.blks else 127


class RefBlockDlServer:
    def __init__(self, blks, crc_en=True):
        self.blks = _Blks(blks)
        self.crc_en = crc_en
        self.state = "idle"
        self.store = None
        self.bad = 0
        self.aborted = False
        self.committed = b""
        # for the oracle: how the transfer looked from the server
        self.subblocks = []        # [announced size, segments seen (incl. lost), acknowledged]
        self.segments_seen = 0

    def _bad(self, code):
        if not self.bad:
            self.bad = code

    def handle(self, d, lost):
        d = bytes(d)
        if len(d) != 8:
            if not lost:
                self._bad(BAD_LEN)
            return []
        if self.state == "data":
            if d[0] == 0x80:
                if not lost:
                    self.state, self.aborted = "idle", True
                return []
            return self._segment(d, lost)
        if lost:
            return []
        if d[0] == 0x80:
            self.state, self.aborted = "idle", True
            return []
        if d[0] & 0xE1 == 0xC0 and self.state == "idle":
            self.cc = bool(d[0] & 4) and self.crc_en
            self.sizeind = bool(d[0] & 2)
            self.size = struct.unpack_from("<L", d, 4)[0]
            self.mux = d[1:4]
            self.blksize = self.blks.next()
            self.ackseq, self.buf, self.committed = 0, b"", b""
            self.lastflag = self.lost = False
            self.state = "data"
            self.subblocks.append([self.blksize, 0, None])
            return [bytes([0xA0 | (4 if self.crc_en else 0)]) + self.mux + bytes([self.blksize, 0, 0, 0])]
        if d[0] & 0xE3 == 0xC1 and self.state == "end":
            n = (d[0] >> 2) & 7
            data = self.committed[:max(0, len(self.committed) - n)]
            crc = d[1] | d[2] << 8
            self.end_n, self.end_crc = n, crc
            if self.cc and crc != crc16(data):
                self._bad(BAD_CRC)
                self.state = "idle"
                return [abort_frame(self.mux, 0x05040004)]
            if self.sizeind and len(data) != self.size:
                self._bad(BAD_SIZE)
                self.state = "idle"
                return [abort_frame(self.mux, 0x06070010)]
            self.store = data
            self.state = "idle"
            return [bytes([0xA1, 0, 0, 0, 0, 0, 0, 0])]
        self._bad(BAD_UNEXPECTED)
        self.state = "idle"
        return [abort_frame(d[1:4], 0x05040001)]

    def _segment(self, d, lost):
        seq, last = d[0] & 0x7F, bool(d[0] & 0x80)
        self.segments_seen += 1
        self.subblocks[-1][1] += 1
        accept = (not lost) and seq == self.ackseq + 1 and not self.lost
        if accept:
            self.ackseq, self.buf, self.lastflag = seq, self.buf + d[1:8], last
        else:
            if not lost and not self.lost:
                self._bad(BAD_SEQ)
            self.lost = True
        if seq == self.blksize or last:
            to_end = self.lastflag and self.ackseq == seq
            ack = self.ackseq
            self.subblocks[-1][2] = ack
            self.committed += self.buf
            self.buf = b""
            self.blksize = self.blks.next()
            self.ackseq, self.lost, self.lastflag = 0, False, to_end
            self.state = "end" if to_end else "data"
            if not to_end:
                self.subblocks.append([self.blksize, 0, None])
            return [bytes([0xA2, ack, self.blksize, 0, 0, 0, 0, 0])]
        return []


class RefBlockUlServer:
    """size_ind: the server announces the size of the value in its initiate response (s bit).  CiA 301 leaves that
    to the server; with s=0 the size field is reserved (0)."""

    def __init__(self, value, crc_en=True, size_ind=True):
        self.value = bytes(value)
        self.crc_en = crc_en
        self.size_ind = size_ind
        self.state = "idle"
        self.bad = 0
        self.aborted = False
        self.ended = False
        self.acks_exact = True
        self.sent = 0
        self.start = 0
        self.bursts = []           # number of segments in every sub-block sent (for the oracle)

    def _bad(self, code):
        if not self.bad:
            self.bad = code

    def _send_block(self, blksize, start):
        self.state, self.blksize, self.start = "data", blksize, start
        out, seq, off = [], 0, start
        while seq < blksize and off < len(self.value):
            chunk = self.value[off:off + 7]
            seq += 1
            off += 7
            last = off >= len(self.value)
            out.append(bytes([seq | (0x80 if last else 0)]) + chunk.ljust(7, b"\0"))
        self.sent = seq
        self.bursts.append(seq)
        return out

    def handle(self, d, lost):
        if lost:
            return []
        d = bytes(d)
        if len(d) != 8:
            self._bad(BAD_LEN)
            return []
        if d[0] == 0x80:
            self.state, self.aborted = "idle", True
            return []
        if d[0] & 0xE0 != 0xA0:
            self._bad(BAD_UNEXPECTED)
            self.state = "idle"
            return [abort_frame(d[1:4], 0x05040001)]
        sub = d[0] & 3
        if sub == 0 and self.state == "idle":
            self.cc = bool(d[0] & 4) and self.crc_en
            self.blksize = d[4]
            if not 1 <= self.blksize <= 127:
                self._bad(BAD_BLKSIZE)
            self.state, self.start, self.sent, self.acks_exact, self.ended = "started", 0, 0, True, False
            return [bytes([0xC0 | (2 if self.size_ind else 0) | (4 if self.crc_en else 0)]) + d[1:4] +
                    struct.pack("<L", len(self.value) if self.size_ind else 0)]
        if sub == 3 and self.state == "started":
            return self._send_block(self.blksize, 0)
        if sub == 2 and self.state == "data":
            ackseq, blksize = d[1], d[2]
            if ackseq > self.sent:
                self._bad(BAD_ACK)
            elif not 1 <= blksize <= 127:
                self._bad(BAD_BLKSIZE)
            self.acks_exact = self.acks_exact and ackseq == self.sent
            pos = self.start + 7 * ackseq
            if pos >= len(self.value):
                n = (7 - len(self.value) % 7) % 7
                crc = crc16(self.value) if self.cc else 0
                self.state, self.blksize, self.start, self.sent = "end", blksize, pos, 0
                return [bytes([0xC1 | n << 2, crc & 0xFF, crc >> 8, 0, 0, 0, 0, 0])]
            return self._send_block(blksize, pos)
        if sub == 1 and self.state == "end":
            self.state, self.ended = "idle", True
            return []
        self._bad(BAD_UNEXPECTED)
        self.state = "idle"
        return [abort_frame(d[1:4], 0x05040001)]


class Faulty:
    """faults: list of ["dropc", k] | ["drops", j] | ["xors", j, byte, mask] | ["aborts", j, code] | ["dups", j]
    k counts the frames sent by the client (1 = the initiate request), j the frames sent by the server."""

    def __init__(self, inner, faults):
        self.inner, self.faults = inner, [list(f) for f in faults]
        self.nc = self.ns = 0
        self.lost_client = []      # ordinals of client frames that were lost
        self.server_frames = []    # every frame the server sent, before mangling

    def handle(self, fr):
        self.nc += 1
        lost = any(f[0] == "dropc" and f[1] == self.nc for f in self.faults)
        if lost:
            self.lost_client.append(self.nc)
        outs = self.inner.handle(fr, lost)
        res = []
        for o in outs:
            self.ns += 1
            self.server_frames.append(o)
            frs = [o]
            for f in self.faults:
                if f[0] == "dropc" or f[1] != self.ns:
                    continue
                if f[0] == "drops":
                    frs = []
                elif f[0] == "xors":
                    frs = [x[:f[2]] + bytes([x[f[2]] ^ f[3]]) + x[f[2] + 1:] if f[2] < len(x) else x for x in frs]
                elif f[0] == "aborts":
                    frs = [abort_frame(x[1:4], f[2]) for x in frs]
                elif f[0] == "dups":
                    frs = frs + frs
            res.extend(frs)
        return res


def make_net(peer, node_id=1):
    """A canopen.Network (imported lazily: this module is also used without the library) delivering inline."""
    import canopen

    class SyncNet(canopen.Network):
        def __init__(self):
            super().__init__()
            self.peer = peer
            self.log = []          # b"\x00" + frame: sent by the client; b"\x01" + frame: delivered to it

        def send_message(self, can_id, data, remote=False):
            d = bytes(data)
            self.log.append(b"\x00" + d)
            for r in self.peer.handle(d):
                self.log.append(b"\x01" + r)
                self.notify(0x580 + node_id, bytearray(r), 0.0)

    return SyncNet()
