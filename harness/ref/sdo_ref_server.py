"""Reference SDO server (expedited + segmented transfer) written from CiA 301 7.2.4.3, not from
the library; Python twin of coq/theories/Model/RefServer.v (same states, same violation codes,
same responses, tied by the correspondence check through complete frame traces).

RefServer.step(frame) -> response frame or None.   Medium wraps it with at most one pending
disturbance (C07)."""
import struct

V_LEN, V_RESERVED, V_EXP_PAD, V_N, V_NO_XFER, V_TOGGLE, V_SEG_PAD, V_SIZE, V_UL_RESERVED, V_CS = range(1, 11)
VIOLATION_NAMES = {1: "request not 8 bytes", 2: "reserved bit/bytes of initiate download not zero",
                   3: "expedited download: padding not zero", 4: "n set where it must be 0",
                   5: "segment request without transfer", 6: "toggle bit not alternating from 0",
                   7: "download segment: padding beyond 7-n not zero", 8: "announced size differs from bytes sent",
                   9: "upload request: reserved bits/bytes not zero", 10: "unknown command specifier"}

DEFAULT_STYLE = dict(size_ind=True, expedite=True, exp_size=True, lazy_end=False, segs=[])


def mux_key(idx, sub):
    return idx + 65536 * sub


def _abort(mux, code):
    return b"\x80" + bytes(mux) + struct.pack("<L", code)


class RefServer:
    def __init__(self, store=None):
        self.store = dict(store or {})     # key -> bytes
        self.x = None                      # None | ["dl", mux, size, buf, t] | ["ul", mux, rest, t, segs]
        self.viol = []
        self.style = dict(DEFAULT_STYLE)

    def set_style(self, st):
        s = dict(DEFAULT_STYLE)
        s.update(st or {})
        self.style = s

    def put(self, idx, sub, value):
        self.store[mux_key(idx, sub)] = bytes(value)

    def step(self, fr):
        fr = bytes(fr)
        if len(fr) != 8:
            self.viol.append(V_LEN)
            return None
        c = fr[0]
        cs = c >> 5
        mux = fr[1:4]
        key = mux[0] + 256 * mux[1] + 65536 * mux[2]
        if cs == 1:                                       # initiate download
            e, sz, n = (c >> 1) & 1, c & 1, (c >> 2) & 3
            if c & 0x10:
                self.viol.append(V_RESERVED)
            ack = b"\x60" + mux + bytes(4)
            d = fr[4:]
            if e:
                if not sz and n:
                    self.viol.append(V_N)
                ln = 4 - n if sz else 4
                if any(d[ln:]):
                    self.viol.append(V_EXP_PAD)
                self.store[key] = d[:ln]
                self.x = None
            else:
                if n:
                    self.viol.append(V_N)
                if not sz and any(d):
                    self.viol.append(V_RESERVED)
                self.x = ["dl", mux, struct.unpack("<L", d)[0] if sz else None, b"", 0]
            return ack
        if cs == 0:                                       # download segment
            if not self.x or self.x[0] != "dl":
                self.x = None
                self.viol.append(V_NO_XFER)
                return _abort(b"\0\0\0", 0x05040001)
            _, xmux, size, buf, t = self.x
            tt, n, last = (c >> 4) & 1, (c >> 1) & 7, c & 1
            if tt != t:
                self.x = None
                self.viol.append(V_TOGGLE)
                return _abort(xmux, 0x05030000)
            if any(fr[8 - n:]):
                self.viol.append(V_SEG_PAD)
            buf = buf + fr[1:8 - n]
            ack = bytes([0x20 | (t << 4)]) + bytes(7)
            if last:
                if size is not None and size != len(buf):
                    self.viol.append(V_SIZE)
                self.store[xmux[0] + 256 * xmux[1] + 65536 * xmux[2]] = buf
                self.x = None
            else:
                self.x = ["dl", xmux, size, buf, t ^ 1]
            return ack
        if cs == 2:                                       # initiate upload
            if c & 0x1F or any(fr[4:]):
                self.viol.append(V_UL_RESERVED)
            if key not in self.store:
                self.x = None
                return _abort(mux, 0x06020000)
            v = self.store[key]
            st = self.style
            if st["expedite"] and 1 <= len(v) <= 4:
                self.x = None
                cmd = 0x43 | ((4 - len(v)) << 2) if st["exp_size"] else 0x42
                return bytes([cmd]) + mux + v.ljust(4, b"\0")
            self.x = ["ul", mux, v, 0, list(st["segs"])]
            if st["size_ind"]:
                return b"\x41" + mux + struct.pack("<L", len(v))
            return b"\x40" + mux + bytes(4)
        if cs == 3:                                       # upload segment
            if not self.x or self.x[0] != "ul":
                self.x = None
                self.viol.append(V_NO_XFER)
                return _abort(b"\0\0\0", 0x05040001)
            _, xmux, rest, t, segs = self.x
            if c & 0x0F or any(fr[1:]):
                self.viol.append(V_UL_RESERVED)
            if ((c >> 4) & 1) != t:
                self.x = None
                self.viol.append(V_TOGGLE)
                return _abort(xmux, 0x05030000)
            k = max(0, min(7, segs[0])) if segs else 7
            chunk, rest2 = rest[:k], rest[k:]
            last = (not rest) if self.style["lazy_end"] else (not rest2)
            resp = bytes([(t << 4) | ((7 - len(chunk)) << 1) | (1 if last else 0)]) + chunk.ljust(7, b"\0")
            self.x = None if last else ["ul", xmux, rest2, t ^ 1, segs[1:]]
            return resp
        if cs == 4:                                       # abort from the client
            self.x = None
            return None
        self.x = None
        self.viol.append(V_CS)
        return _abort(mux, 0x05040001)


def apply_fault(f, rs):
    k = f["f"]
    if k in ("lost", "lostreq"):
        return []
    if k == "replace":
        return [bytes(x) for x in f["frames"]]
    if k == "xor0":
        return [bytes([r[0] ^ f["m"]]) + r[1:] if r else r for r in rs]
    if k == "mux":
        return [r[:1] + bytes(f["m"]) + r[4:] if r else r for r in rs]
    if k == "dup":
        return rs + rs
    if k == "stale":
        return [bytes(f["frame"])] + rs
    raise ValueError(k)


class Medium:
    """server + transmission medium with at most one pending disturbance [k, fault]"""
    def __init__(self, server):
        self.srv = server
        self.fault = None

    def arm(self, fault):
        self.fault = None if fault is None else [fault[0], fault[1]]

    def step(self, req):
        if self.fault is not None:
            k, f = self.fault
            if k == 0:
                self.fault = None
                if f["f"] == "lostreq":
                    return []
                if f["f"] == "delay":
                    r = self.srv.step(req)
                    if r is not None:
                        self.fault = [0, dict(f="stale", frame=list(r))]
                    return []
                r = self.srv.step(req)
                return apply_fault(f, [] if r is None else [r])
            self.fault = [k - 1, f]
        r = self.srv.step(req)
        return [] if r is None else [r]
