"""Generator of object dictionary descriptions for C08 / C14 (see ref/eds_writer.py for the format).

flavour "written": a description with spelling choices, for the independent writer (C08, C14 re-export);
flavour "built":   semantic values only, for dictionaries built in code with the library's classes (C14).
All randomness comes from the rng passed in."""
from .eds_writer import SIGNED, UNSIGNED, BOOLEAN, REAL32, REAL64, VISIBLE, OCTET, UNICODE, TIME_OF_DAY, TIME_DIFF, DOMAIN, \
    DEVINFO_KEYS, STD_RATES

ALL_TYPES = list(SIGNED) + list(UNSIGNED) + [BOOLEAN, REAL32, REAL64, VISIBLE, OCTET, UNICODE, TIME_OF_DAY, TIME_DIFF, DOMAIN]
ACCESS = ["rw", "ro", "wo", "const", "rwr", "rww"]
WORDS = ["Device type", "Error register", "COB-ID SYNC", "speed", "a % b", "k=v", "100%", "x=y=z", "Gain [1/s]",
         "Temp: now", "plain", "Mode", "Café", "温度", "a;b", "q#r", "(v)", "T_on", "Max current", "x"]
# decimal floating-point numbers m*10^e that are exactly representable in binary32 and binary64 with few digits,
# each with several spellings
FLOATS = [((25, -2), ["0.25", "2.5e-1", ".25", "25E-2", "+0.250"]),
          ((-225, -2), ["-2.25", "-225e-2", "-2.250"]),
          ((5, -1), ["0.5", "5e-1", ".5"]),
          ((1, 10), ["1e10", "10000000000.0", "1E+10"]),
          ((15, 1), ["150", "150.0", "1.5e2", "1.5E+02"]),
          ((0, 0), ["0", "0.0", "0e0"]),
          ((125, -3), ["0.125", "125e-3"]),
          ((3, 0), ["3", "3.0", "3."]),
          ((-1, 0), ["-1", "-1.0"]),
          ((1024, 0), ["1024", "1.024e3"]),
          ((1, 16), ["1e16", "1E16"]),
          ((6103515625, -14), ["6.103515625e-05", "0.00006103515625"]),
          ((2, 0), ["2.0", "2"])]
FLOATS32_OK = FLOATS   # all of the above are exact in binary32 as well (6103515625e-14 = 2^-14)


class Gen:
    def __init__(self, rng, flavour):
        self.rng, self.flavour, self.n = rng, flavour, 0
        self.written = flavour == "written"

    def name(self, member=False, top_dots=False):
        """unique names; a member (child) name may contain dots: 'Parent.Child' splits at the FIRST dot.  A top-level
        ParameterName may contain dots as well ('Max. current'): it is reached by index and by its plain name."""
        self.n += 1
        w = self.rng.choice(WORDS + (["rev 1.2", "a.b", ".x"] if member else []) +
                            (["Max. current", "Drive v1.2 data", "a.b"] if top_dots else []))
        return "%s %d" % (w, self.n)

    def sp_unsigned(self):
        return self.rng.choice(["dec", "hex", "HEX", "hexl", "hex4"])

    def text(self):
        r = self.rng
        return r.choice(["abc", "hello world", "x", "50% = half", "a=b", "v1:2", "über", "rev 1 2 3", ""])

    def dval(self, dt, relative_ok):
        r = self.rng
        if dt in SIGNED:
            w = SIGNED[dt]; lo, hi = -(1 << (w - 1)), (1 << (w - 1)) - 1
            z = r.choice([lo, hi, -1, 0, 1, lo + 1, hi - 1, r.randint(lo, hi)])
            return {"int": z, "sp": r.choice(["dec", "hex", "hexl", "HEX"])}
        if dt in UNSIGNED:
            w = UNSIGNED[dt]
            if self.written and relative_ok and r.random() < 0.25:
                return {"rel": r.choice([0, 0x180, 0x200, 0x600, 0x80, r.randrange(1 << min(w, 11))]), "sp": self.sp_unsigned(),
                        "form": r.choice(["pre", "post", "pre_sp", "post_sp"])}
            z = r.choice([0, (1 << w) - 1, 1, (1 << (w - 1)), r.randrange(1 << w)])
            return {"int": z, "sp": self.sp_unsigned()}
        if dt == BOOLEAN:
            return {"int": r.choice([0, 1]), "sp": "dec"}
        if dt in (REAL32, REAL64):
            if not self.written and r.random() < 0.35:
                # a whole number assigned as a Python int to a REAL object (var.default = -40)
                f = r.choice([(0, 0), (-4, 1), (1, 0), (5, 0), (1, 2), (1, 3), (-1, 0), (12345, 0), (-25, 1)])
                return {"flt": list(f), "as_int": True}
            f, texts = r.choice(FLOATS)
            return {"flt": list(f), "text": r.choice(texts)}
        if dt in (VISIBLE, UNICODE):
            return {"str": self.text()}
        if dt in (OCTET, DOMAIN):
            bs = [r.randrange(256) for _ in range(r.randrange(0, 6))]
            h = "".join("%02x" % b for b in bs)
            if self.written and r.random() < 0.5: h = h.upper()
            return {"hex": h, "bytes": bs}
        return {"int": r.randrange(1000), "sp": "dec"}      # TIME_OF_DAY etc.: the library reads a number

    def vdesc(self, sub, dt=None, name=None):
        r = self.rng
        dt = r.choice(ALL_TYPES) if dt is None else dt
        v = {"name": self.name(member=sub is not None and name is None) if name is None else name, "sub": sub, "dt": dt}
        acc = r.choice(ACCESS)
        if self.written:
            v["dt_sp"] = r.choice(["hex4", "hex", "dec", "hexl"])
            acc = r.choice([acc, acc.upper(), acc.capitalize()])
        v["access"] = acc
        v["pdo"] = r.choice([None, True, False]) if self.written else r.choice([True, False])
        if self.written: v["pdo_sp"] = r.choice(["dec", "hex"])
        if r.random() < 0.75:
            v["default"] = self.dval(dt, True)
        if r.random() < 0.35 and dt not in (TIME_OF_DAY, TIME_DIFF):
            v["pvalue"] = self.dval(dt, True)
        if dt in SIGNED and r.random() < 0.6:
            w = SIGNED[dt]; lo, hi = -(1 << (w - 1)), (1 << (w - 1)) - 1
            a, b = sorted([r.randint(lo, hi), r.randint(lo, hi)])
            v["low"], v["high"] = r.choice([(lo, hi), (lo, -1), (-1, hi), (0, hi), (a, b), (lo + 1, hi - 1)])
            if r.random() < 0.2: v.pop("low")
            elif r.random() < 0.2: v.pop("high")
            if self.written:
                v["low_sp"] = r.choice(["dec", "twos", "twos", "twosl"])
                v["high_sp"] = r.choice(["dec", "twos", "twos", "hex"]) if v.get("high", 0) >= 0 else r.choice(["dec", "twos"])
        elif dt in UNSIGNED and r.random() < 0.5:
            w = UNSIGNED[dt]
            a, b = sorted([r.randrange(1 << w), r.randrange(1 << w)])
            v["low"], v["high"] = r.choice([(0, (1 << w) - 1), (a, b), (1, (1 << w) - 2)])
            if self.written: v["low_sp"], v["high_sp"] = self.sp_unsigned(), self.sp_unsigned()
        if r.random() < 0.3: v["storage"] = r.choice(["RAM", "ROM", "PERSIST_COMM", "flash 2"])
        if r.random() < 0.3:
            f, texts = r.choice([x for x in FLOATS if x[0] != (0, 0)])
            v["factor"], v["factor_text"] = list(f), r.choice(texts)
        if r.random() < 0.3: v["unit"] = r.choice(["mm", "1/s", "%", "°C", "m/s^2"])
        if r.random() < 0.3: v["descr"] = r.choice(["some text", "a = b + c", "100 % sure", "see 1.2.3"])
        return v

    def obj(self, index):
        r = self.rng
        kinds = ["var"] * 4 + ["rec"] * 2 + ["arr"] * 2 + (["compact"] * 2 + ["domain"] if self.written else [])
        kind = r.choice(kinds)
        o = {"kind": kind, "index": index, "name": self.name(top_dots=True)}
        if self.written:
            o["sec_case"] = r.choice(["upper", "upper", "lower"])
            o["objtype_sp"] = r.choice(["hex", "dec", "hexl"])
        if kind == "var":
            o["var"] = self.vdesc(0, name=o["name"])
            if self.written and r.random() < 0.3: o["objtype_sp"] = None
        elif kind == "domain":
            o["var"] = self.vdesc(0, dt=DOMAIN, name=o["name"])
        elif kind in ("rec", "arr"):
            if r.random() < 0.3: o["storage"] = r.choice(["ROM", "RAM"])
            k = r.choice([1, 2, 3, 4, 5, 8, 20]) if r.random() < 0.5 else r.randrange(1, 21)
            subs = list(range(1, k + 1))
            if kind == "rec" and r.random() < 0.3:
                subs = sorted(r.sample(range(1, 0xFF), k))
            n0 = self.vdesc(0, dt=0x05)
            n0.update(access="ro" if not self.written else r.choice(["ro", "RO"]), default={"int": subs[-1], "sp": "dec"})
            for key in ("low", "high", "pvalue", "factor", "factor_text"): n0.pop(key, None)
            adt = r.choice(ALL_TYPES)
            # an ARRAY usually has one element type, but the library does not enforce it: 40 % mixed-type arrays
            mixed = kind == "arr" and r.random() < 0.4
            o["members"] = [n0] + [self.vdesc(sb, dt=adt if kind == "arr" and not mixed else None) for sb in subs]
            if self.written:
                o["sub_kw"] = r.choice(["sub", "sub", "Sub"])
                o["sub_case"] = r.choice(["upper", "lower"])
        else:  # compact
            if r.random() < 0.3: o["storage"] = "ROM"
            o["var"] = self.vdesc(1, name=o["name"], dt=r.choice(list(SIGNED) + list(UNSIGNED) + [BOOLEAN, REAL32, VISIBLE]))
            o["var"].pop("storage", None)            # one StorageLocation key serves the array and its elements
            if o.get("storage") is not None: o["var"]["storage"] = o["storage"]
            o["n"] = r.choice([1, 2, 3, 4, 8, 20, r.randrange(1, 21)])
            mode = r.choice(["none", "full", "sparse"])
            if mode == "full":
                o["names"] = {str(i): self.name(member=True) for i in range(1, o["n"] + 1)}
            elif mode == "sparse":
                o["names"] = {str(i): self.name(member=True) for i in range(1, o["n"] + 1) if r.random() < 0.5}
            else:
                o["names"] = None
        return o

    def desc(self, size="normal"):
        r = self.rng
        d = {"doc": r.choice(["eds", "dcf"])}
        nobj = {"small": r.randrange(1, 4), "normal": r.randrange(3, 9), "large": r.randrange(12, 25)}[size]
        pool = r.sample(range(0x1000, 0x1200), 8) + r.sample(range(0x2000, 0x6000), 8) + r.sample(range(0x6000, 0xA000), 8) + \
            [0x1000, 0x1001, 0x1018, 0x1FFF, 0x2000, 0x5FFF, 0x6000, 0xFFFF]
        idx = r.sample(sorted(set(pool)), nobj)
        if not self.written or r.random() < 0.7: idx.sort()
        d["objects"] = [self.obj(i) for i in idx]
        if r.random() < 0.8:
            d["comments"] = [r.choice(["first line", "second = line", "100 % comment", "x", "EDS for device 7", "", ""])
                             for _ in range(r.randrange(0, 5))]
            # empty lines inside (and in front of) the comment text are kept by splitlines()/join; a text cannot end
            # in an empty line (str.splitlines drops a final line break)
            while d["comments"] and d["comments"][-1] == "": d["comments"].pop()
        else:
            d["comments"] = None if self.written else []
        di = {}
        for k, t in DEVINFO_KEYS:
            if r.random() < 0.8:
                di[k] = (r.choice(["ACME", "Foo & Bar GmbH", "P 100%", "OC=1"]) if t is str else
                         r.choice([True, False]) if t is bool else
                         r.choice([0, 1, 2, 8, 64, 0x123, 0xFFFFFFFF]))
        d["devinfo"] = di
        if self.written:
            d["devinfo_sp"] = {k: r.choice(["dec", "hex", "hexl"]) for k in di if not isinstance(di[k], str)}
            if r.random() < 0.1: d["devinfo"] = None
        d["baud"] = {str(rt): r.choice([0, 1]) for rt in STD_RATES if r.random() < 0.8}
        if d["doc"] == "dcf" or (self.written and r.random() < 0.2):
            d["commissioning"] = True
            d["file_node_id"] = r.choice([None, 1, 5, 0x7F, r.randrange(1, 128)])
            d["file_node_id_sp"] = r.choice(["dec", "hex"]) if self.written else "dec"
            d["baudrate_kbit"] = r.choice([None, 10, 125, 250, 1000])
            if not self.written and d["file_node_id"] is None and d["baudrate_kbit"] is None:
                d["commissioning"] = False
        else:
            d["commissioning"] = False; d["file_node_id"] = None; d["baudrate_kbit"] = None
        if self.written:
            d["extra_sections"] = r.random() < 0.5
            # section order is free in an INI file: fixed sections after the objects, or everything in random order
            d["tail"] = [r.random() < 0.3, r.random() < 0.45, r.random() < 0.3]
            d["shuffle"] = r.randrange(1 << 30) if r.random() < 0.35 else None
        return d


def gen_desc(rng, flavour, size="normal"):
    return Gen(rng, flavour).desc(size)
