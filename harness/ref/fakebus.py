"""Simulated CAN bus with a registry of cyclic transmit tasks (reference peer for C17).

Written from python-can's documented contract of ``BusABC.send_periodic`` /
``CyclicSendTaskABC`` (a task transmits the frame it was created with, every ``period`` seconds,
until ``stop()``; a task that offers ``modify_data(msg)`` transmits the new content from then on),
not from the canopen library.  No threads, no clock: a task is "transmitting" while it is in
``bus.live``.  Two flavours, the two shapes that exist among python-can back ends:

* ``FakeBus(modify=True)``  -> tasks WITH ``modify_data`` (socketcan BCM style),
* ``FakeBus(modify=False)`` -> tasks WITHOUT it (hardware scheduled frames, ixxat style); the only way
  to change the content is to stop the task and create a new one.

In both flavours the task takes a COPY of the frame when it is created / modified (the frame has been
handed to the kernel or the interface), so what is "on the wire" is exactly what the caller handed over
through the python-can API at that moment.

``live_view()`` is the observation used by the check: one entry (task id, CAN id, payload, period in
ms, remote flag) per transmitting task, in order of creation.  Task ids count the tasks ever created
on this bus, so a stop-and-restart is visible as a new id.
"""
import can


class FakeTask:
    """Cyclic task without modify_data."""

    def __init__(self, bus, msg, period):
        self.bus = bus
        self.tid = bus.created
        bus.created += 1
        self.arbitration_id = msg.arbitration_id
        self.data = bytes(msg.data)
        self.remote = bool(msg.is_remote_frame)
        self.extended = bool(msg.is_extended_id)
        self.period = period
        self.stops = 0
        bus.live[self.tid] = self

    def stop(self):
        self.stops += 1
        self.bus.live.pop(self.tid, None)


class FakeModTask(FakeTask):
    """Cyclic task with modify_data (content replaced in place, same task keeps running)."""

    def modify_data(self, msg):
        if msg.arbitration_id != self.arbitration_id:
            raise ValueError("The arbitration ID of new cyclic messages cannot be changed")
        self.data = bytes(msg.data)


class FakeBus(can.BusABC):
    def __init__(self, modify):
        # deliberately no super().__init__: no filters, no threads, no periodic-task bookkeeping
        self.modify = bool(modify)
        self.live = {}
        self.created = 0
        self.sent = []
        self.channel_info = "fakebus"
        self.is_shut_down = False

    def send(self, msg, timeout=None):
        self.sent.append((msg.arbitration_id, bytes(msg.data), bool(msg.is_remote_frame)))

    def send_periodic(self, msgs, period, *args, **kwargs):
        if isinstance(msgs, (list, tuple)):
            if len(msgs) != 1:
                raise ValueError("one frame per task")
            msgs = msgs[0]
        return (FakeModTask if self.modify else FakeTask)(self, msgs, period)

    def _recv_internal(self, timeout):
        return None, False

    def shutdown(self):
        # a custom bus need not stop tasks on shutdown; the property asks the LIBRARY to stop PDO tasks
        self.is_shut_down = True

    def __del__(self):
        pass

    def live_view(self):
        out = []
        for tid in sorted(self.live):
            t = self.live[tid]
            out.append([tid, t.arbitration_id, t.data, int(round(t.period * 1000)), t.remote])
        return out
