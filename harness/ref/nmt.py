"""Reference NMT peers written from CiA 301 (7.3.2 NMT state machine, 7.2.8.3.1 node control,
7.2.8.3.2 heartbeat / boot-up), independent of the canopen library and of the Coq model.

Sleep / Standby are the power-management states of the CiA 447/454 profiles which ride on the
same protocol (command specifiers 80 / 96, state bytes 80 / 96)."""

INITIALISING, PREOP, OPERATIONAL, STOPPED, SLEEP, STANDBY = (
    "INITIALISING", "PRE-OPERATIONAL", "OPERATIONAL", "STOPPED", "SLEEP", "STANDBY")
STATES = (INITIALISING, PREOP, OPERATIONAL, STOPPED, SLEEP, STANDBY)

# node control command specifier -> state entered
CS_STATE = {
    1: OPERATIONAL,       # start remote node
    2: STOPPED,           # stop remote node
    128: PREOP,           # enter pre-operational
    129: INITIALISING,    # reset node
    130: INITIALISING,    # reset communication
    80: SLEEP,
    96: STANDBY,
}
DEFINED_CS = tuple(sorted(CS_STATE))

# state byte of the heartbeat message (0 = boot-up)
STATE_BYTE = {INITIALISING: 0, STOPPED: 4, OPERATIONAL: 5, PREOP: 127, SLEEP: 80, STANDBY: 96}
BYTE_STATE = {v: k for k, v in STATE_BYTE.items()}

# names accepted by the `state` setter (documented API) and the command each one stands for
NAME_CS = {"OPERATIONAL": 1, "STOPPED": 2, "SLEEP": 80, "STANDBY": 96, "PRE-OPERATIONAL": 128,
           "INITIALISING": 129, "RESET": 129, "RESET COMMUNICATION": 130}


class RefNode:
    """NMT slave state machine of one node."""

    def __init__(self, node_id):
        self.id = node_id
        self.state = INITIALISING

    def command(self, cs, nid):
        """a node control frame [cs, nid] seen on CAN id 0"""
        if nid == self.id or nid == 0:
            self.local(cs)

    def local(self, cs):
        if cs in CS_STATE:
            self.state = CS_STATE[cs]

    def state_byte(self):
        return STATE_BYTE[self.state]


class RefView(RefNode):
    """What a master knows about a node: the state last assigned by a command it sent or saw,
    or last reported by the node's heartbeat.  `state` is a state name or ("unknown", n)."""

    def heartbeat(self, b):
        s = b & 0x7F                      # bit 7 = toggle bit, no state information
        if s == 0:
            self.state = PREOP            # boot-up: the node has entered PRE-OPERATIONAL
        elif s in BYTE_STATE:
            self.state = BYTE_STATE[s]
        else:
            self.state = ("unknown", s)


def wait_heartbeat_expect(arrivals):
    """None = must fail with the NMT error, else the view after the last arrival"""
    if not arrivals:
        return None
    v = RefView(0)
    for b in arrivals:
        v.heartbeat(b)
    return v.state
