"""Independent EDS/DCF writer (reference peer for C08/C14), written from CiA 306, not from the library.

A *description* (JSON-native dict, produced by ref/odgen.py) says what the device has; this module
turns it into (1) the abstract token document  [[section, [[key, value], ...]], ...]  and (2) text
in one of several layouts.  It also computes, independently of the library and of the Coq model,
what an importer has to find (`expected`).

description = {
  "doc": "eds" | "dcf",
  "file_node_id": int | None, "file_node_id_sp": spelling, "baudrate_kbit": int | None,
  "commissioning": bool,                      # write a [DeviceComissioning] section
  "comments": [line, ...] | None,
  "devinfo": {eds_key: str | int | bool}, "devinfo_sp": {eds_key: spelling}, "baud": {rate_kbit: 0|1},
  "extra_sections": bool,                     # FileInfo, DummyUsage, object lists
  "tail": [bool, bool, bool],                 # DeviceInfo / DeviceComissioning / Comments written AFTER the objects
  "shuffle": int | None,                      # seed of a random order of all section groups (an INI file is unordered;
                                              # an object's own sections stay together, parent first)
  "objects": [obj, ...] }
obj = {"kind": "var"|"domain"|"arr"|"rec"|"compact", "index": int, "name": str, "storage": str|None,
       "sec_case": "upper"|"lower", "objtype_sp": spelling|None (None: key omitted, VAR only),
       "var": vdesc                         (var, domain, compact)
       "members": [vdesc, ...], "sub_kw": "sub"|"Sub", "sub_case": "upper"|"lower"     (arr, rec)
       "n": int, "names": {str(sub): name} | None                                      (compact)}
vdesc = {"name", "sub", "dt", "dt_sp", "access" (spelled, any case), "pdo": None|bool, "pdo_sp",
         "default": dval|None, "pvalue": dval|None, "low": int|None, "low_sp", "high", "high_sp",
         "storage": str|None, "factor": [m, e]|None, "factor_text", "unit": str|None, "descr": str|None}
dval = {"int": z, "sp": spelling} | {"rel": off, "sp": spelling, "form": "pre"|"post"|"pre_sp"|"post_sp"}
     | {"str": text} | {"hex": "0a0b", "bytes": [..]} | {"flt": [m, e], "text": "0.25"}
spelling = "dec" | "hex" | "HEX" | "hex4" | "hexl" | "twos" | "twosl"      (twos: limits of signed types)
"""

SIGNED = {0x02: 8, 0x03: 16, 0x10: 24, 0x04: 32, 0x12: 40, 0x13: 48, 0x14: 56, 0x15: 64}
UNSIGNED = {0x05: 8, 0x06: 16, 0x16: 24, 0x07: 32, 0x18: 40, 0x19: 48, 0x1A: 56, 0x1B: 64}
BOOLEAN, REAL32, REAL64, VISIBLE, OCTET, UNICODE, TIME_OF_DAY, TIME_DIFF, DOMAIN = 1, 8, 0x11, 9, 0xA, 0xB, 0xC, 0xD, 0xF
DEVINFO_KEYS = [("VendorName", str), ("VendorNumber", int), ("ProductName", str), ("ProductNumber", int),
                ("RevisionNumber", int), ("OrderCode", str), ("SimpleBootUpMaster", bool),
                ("SimpleBootUpSlave", bool), ("Granularity", int), ("DynamicChannelsSupported", bool),
                ("GroupMessaging", bool), ("NrOfRXPDO", int), ("NrOfTXPDO", int), ("LSS_Supported", bool)]
STD_RATES = [10, 20, 50, 125, 250, 500, 800, 1000]


def spell(z, sp, width=None):
    """a number as EDS text; 'twos' = two's complement hex of the given width (signed limits)"""
    if sp == "dec":
        return str(z)
    if sp in ("twos", "twosl"):
        assert width
        t = "%X" % (z % (1 << width))
        return "0x" + (t if sp == "twos" else t.lower())
    sign = "-" if z < 0 else ""
    a = abs(z)
    if sp == "hex": return sign + "0x%X" % a
    if sp == "HEX": return sign + "0X%X" % a
    if sp == "hexl": return sign + "0x%x" % a
    if sp == "hex4": return sign + "0x%04X" % a
    raise ValueError(sp)


def dval_text(d):
    if d is None: return None
    if "int" in d: return spell(d["int"], d["sp"])
    if "rel" in d:
        n = spell(d["rel"], d["sp"])
        return {"pre": "$NODEID+" + n, "post": n + "+$NODEID", "pre_sp": "$NODEID + " + n,
                "post_sp": n + " + $NODEID"}[d["form"]]
    if "str" in d: return d["str"]
    if "hex" in d: return d["hex"]
    if "flt" in d: return d["text"]
    raise ValueError(d)


def var_keys(v, with_name=True):
    kv = []
    if with_name: kv.append(["ParameterName", v["name"]])
    width = SIGNED.get(v["dt"])
    kv.append(["DataType", spell(v["dt"], v.get("dt_sp", "hex4"))])
    kv.append(["AccessType", v["access"]])
    if v.get("default") is not None: kv.append(["DefaultValue", dval_text(v["default"])])
    if v.get("pvalue") is not None: kv.append(["ParameterValue", dval_text(v["pvalue"])])
    if v.get("pdo") is not None: kv.append(["PDOMapping", spell(int(v["pdo"]), v.get("pdo_sp", "dec"))])
    if v.get("low") is not None: kv.append(["LowLimit", spell(v["low"], v.get("low_sp", "dec"), width)])
    if v.get("high") is not None: kv.append(["HighLimit", spell(v["high"], v.get("high_sp", "dec"), width)])
    if v.get("storage") is not None: kv.append(["StorageLocation", v["storage"]])
    if v.get("factor") is not None: kv.append(["Factor", v["factor_text"]])
    if v.get("unit") is not None: kv.append(["Unit", v["unit"]])
    if v.get("descr") is not None: kv.append(["Description", v["descr"]])
    return kv


def hex4(index, case):
    t = "%04X" % index
    return t if case == "upper" else t.lower()


def tokens(desc):
    tail = desc.get("tail") or [False, False, False]
    head, last = [], []
    def put(i, sec): (last if i is not None and tail[i] else head).append([sec])
    if desc.get("extra_sections"):
        put(None, ["FileInfo", [["FileName", "generated." + desc["doc"]], ["FileVersion", "1"], ["FileRevision", "0"],
                                ["EDSVersion", "4.0"], ["Description", "generated by the reference writer"],
                                ["CreatedBy", "verif"]]])
    if desc.get("devinfo") is not None:
        kv = []
        for k, _t in DEVINFO_KEYS:
            if k in desc["devinfo"]:
                val = desc["devinfo"][k]
                kv.append([k, val if isinstance(val, str) else spell(int(val), desc.get("devinfo_sp", {}).get(k, "dec"))])
        for r in STD_RATES:
            if str(r) in desc.get("baud", {}):
                kv.append(["BaudRate_%d" % r, str(desc["baud"][str(r)])])
        put(0, ["DeviceInfo", kv])
    if desc.get("commissioning"):
        kv = []
        if desc.get("file_node_id") is not None:
            kv.append(["NodeID", spell(desc["file_node_id"], desc.get("file_node_id_sp", "dec"))])
        if desc.get("baudrate_kbit") is not None:
            kv.append(["Baudrate", str(desc["baudrate_kbit"])])
        put(1, ["DeviceComissioning", kv])
    if desc.get("extra_sections"):
        put(None, ["DummyUsage", [["Dummy%04d" % i, "0"] for i in range(1, 8)]])
    if desc.get("comments") is not None:
        kv = [["Lines", str(len(desc["comments"]))]]
        kv += [["Line%d" % (i + 1), l] for i, l in enumerate(desc["comments"])]
        put(2, ["Comments", kv])
    if desc.get("extra_sections"):
        idx = [o["index"] for o in desc["objects"]]
        for name, sel in (("MandatoryObjects", [i for i in idx if i in (0x1000, 0x1001, 0x1018)]),
                          ("OptionalObjects", [i for i in idx if i not in (0x1000, 0x1001, 0x1018) and not 0x2000 <= i < 0x6000]),
                          ("ManufacturerObjects", [i for i in idx if 0x2000 <= i < 0x6000])):
            put(None, [name, [["SupportedObjects", str(len(sel))]] + [[str(k + 1), "0x%04X" % i] for k, i in enumerate(sel)]])
    groups = []
    for o in desc["objects"]:
        doc = []
        groups.append(doc)
        sec = hex4(o["index"], o.get("sec_case", "upper"))
        k = o["kind"]
        if k in ("var", "domain"):
            kv = [["ParameterName", o["name"]]]
            if o.get("objtype_sp") is not None:
                kv.append(["ObjectType", spell(7 if k == "var" else 2, o["objtype_sp"])])
            kv += var_keys(o["var"], with_name=False)
            doc.append([sec, kv])
        elif k in ("arr", "rec"):
            kv = [["ParameterName", o["name"]], ["ObjectType", spell(8 if k == "arr" else 9, o.get("objtype_sp") or "hex")],
                  ["SubNumber", str(len(o["members"]))]]
            if o.get("storage") is not None: kv.append(["StorageLocation", o["storage"]])
            doc.append([sec, kv])
            for m in o["members"]:
                st = "%X" % m["sub"]
                if o.get("sub_case", "upper") == "lower": st = st.lower()
                doc.append([sec + o.get("sub_kw", "sub") + st, var_keys(m)])
        elif k == "compact":
            kv = [["ParameterName", o["name"]], ["ObjectType", spell(8, o.get("objtype_sp") or "hex")]]
            kv += var_keys(o["var"], with_name=False)
            kv.append(["CompactSubObj", str(o["n"])])      # StorageLocation: the one written by var_keys
            doc.append([sec, kv])
            if o.get("names") is not None:
                kv = [["NrOfEntries", str(o["n"])]] + [[str(int(sb)), nm] for sb, nm in sorted(o["names"].items(), key=lambda p: int(p[0]))]
                doc.append([sec + "Name", kv])
        else:
            raise ValueError(k)
    all_groups = head + groups + last
    if desc.get("shuffle") is not None:
        import random
        random.Random(desc["shuffle"]).shuffle(all_groups)
    return [sec for g in all_groups for sec in g]


def render(doc, style=0):
    """text of a token document. style 0: key=value; 1: 'key = value', blank lines, ';' comment lines;
    2: inline comments after values (' ;...'), trailing blanks, '#' comment lines, CRLF-free."""
    out = []
    if style == 1: out.append("; generated file")
    if style == 2: out.append("# generated file")
    for sec, kv in doc:
        out.append("[%s]" % sec)
        for k, v in kv:
            if style == 0: out.append("%s=%s" % (k, v))
            elif style == 1: out.append("%s = %s" % (k, v))
            else: out.append("%s=%s  ;note" % (k, v) if v != "" else "%s=" % k)
        if style: out.append("")
        if style == 1: out.append(";----")
    return "\n".join(out) + "\n"


# ---------------------------------------------------------------- what an importer must find
def dval_value(d, nid):
    """semantic value of a default / parameter value; ('skip',) when nothing can be demanded"""
    if d is None: return None
    if "int" in d: return d["int"]
    if "rel" in d: return ("skip",) if nid is None else d["rel"] + nid
    if "str" in d: return d["str"]
    if "hex" in d: return bytes(d["bytes"])
    if "flt" in d: return ("flt", d["flt"][0], d["flt"][1])
    raise ValueError(d)


def node_id_in_force(desc, nid_param):
    if nid_param is not None: return nid_param
    if desc.get("commissioning") and desc.get("file_node_id") is not None: return desc["file_node_id"]
    return None


def expected_var(v, index, nid, name=None, sub=None):
    return dict(name=v["name"] if name is None else name, index=index, sub=v["sub"] if sub is None else sub,
                dt=v["dt"], access=v["access"].lower(), pdo=bool(v.get("pdo")),
                default=dval_value(v.get("default"), nid), value=dval_value(v.get("pvalue"), nid),
                low=v.get("low"), high=v.get("high"), storage=v.get("storage"),
                factor=tuple(v["factor"]) if v.get("factor") is not None else (1, 0),
                unit=v.get("unit") or "", descr=v.get("descr") or "")
