"""C10 - frames reach exactly the handlers subscribed at that moment; outgoing frame format;
listener filter; node scanner."""
import logging

from vlib.obs import Err, guarded, gz, gzlist, gbool, glist
from ref.multimap import RefNet, UNSPECIFIED, scan as ref_scan

PROP = "C10"
MODEL_VO = ["theories/Model/Net.vo"]
COQ_IMPORTS = "From CV Require Import Gen.NetTables Model.Net."
COQ_RUN = "run_net"
COQ_CASE_TYPE = "net_case"
RULE = ("cases = operation histories (subscribe / unsubscribe one / unsubscribe all / add or replace a node object / "
        "remove a node / add_sdo on a node object (registered or not; new, shared and colliding tx ids) / a second "
        "associate_network of an attached node / connect - disconnect - connect of the bus / notify / "
        "listener frame incl. error+remote+extended / scanner reset) over a pool of ~14 CAN ids "
        "(node COB-IDs of 2-3 node ids in 1..127, extra SDO tx ids, 0, the LSS id, arbitrary 11- and 29-bit ids), 6 user callbacks (functions, bound methods, falsy-while-empty callables) and "
        "4-6 node objects (local and remote mixed, several objects per node id), 'clean' histories and 'dirty' ones that "
        "tamper with node subscriptions; compared step by step (delivery log of every callback, exception kind) plus the "
        "final subscribers / nodes / scanner state; scanner id lists (all 2048 11-bit ids, 29-bit ids, ids around every "
        "service boundary, negative and >29-bit); send_message / send_periodic frames (ids around 0x7FF, all 11-bit ids "
        "through the oracle in the thorough tier, sampled 29-bit ids, remote, 0..8+ data bytes, no bus); periodic tasks "
        "followed by 1-4 update() calls (same / other payload and length, bus tasks with and without modify_data); "
        "non-trivial = a history with a subscription or node followed by a frame, a non-empty id list, any frame case; "
        "distinct by canonical JSON of the case")
EXHAUSTIVE = {"quick": False, "thorough": False}
EXPLANATION = ("every tier feeds all 2048 11-bit ids to the scanner (model and oracle); the thorough tier also sends a "
               "frame on every 11-bit id (oracle only); histories and 29-bit ids are sampled")
TRUSTED = ["modelled, not verified: python-can can.Message construction (a remote frame's payload is discarded, dlc = len(data)); "
           "Python dict insertion order and list.remove / in semantics (modelled as association lists, tied by correspondence)",
           "node callbacks are the library's real bound methods, observed through class-level logging wrappers "
           "(SdoClient.on_response, SdoServer.on_request, NmtMaster.on_heartbeat, NmtBase/NmtSlave.on_command, "
           "EmcyConsumer.on_emcy) that log for instances tagged by the harness; the wrapped originals are not run for those",
           "connect / disconnect use python-can's virtual interface and a real Notifier thread; no frame travels on that bus",
           "python-can does not recompute dlc when .data is assigned; PeriodicMessageTask.update sets it (fix 7181830), "
           "the oracle demands dlc = len(data) of every updated message"]
ASSUMPTIONS = ["callbacks are identities in the model (the harness uses real bound methods, equal but not identical at every use, "
               "for node callbacks and for user callbacks 0 and 3, plain functions for 1 and 4, a list-derived callable "
               "that is falsy while empty for 2, a callable with __bool__ (falsy before its first frame) for 5; all with identity equality)",
               "callbacks do not raise; re-entrant callbacks (case kind reent: a callback performs one scripted operation on "
               "the network while being invoked) follow the snapshot rule of Network.notify (C10_reentrant_dispatch_snapshot)",
               "timestamps are injected integers"]

ANCHORS = [("canopen.network", "Network.__init__"), ("canopen.network", "Network.subscribe"),
           ("canopen.network", "Network.unsubscribe"), ("canopen.network", "Network.notify"),
           ("canopen.network", "Network.send_message"), ("canopen.network", "Network.send_periodic"),
           ("canopen.network", "Network.add_node"), ("canopen.network", "Network.create_node"),
           ("canopen.network", "Network.__setitem__"), ("canopen.network", "Network.__delitem__"),
           ("canopen.network", "MessageListener.on_message_received"),
           ("canopen.network", "NodeScanner.on_message_received"), ("canopen.network", "NodeScanner.reset"),
           ("canopen.network", "NodeScanner.SERVICES"),
           ("canopen.network", "PeriodicMessageTask.__init__"), ("canopen.network", "PeriodicMessageTask.update"),
           ("canopen.network", "PeriodicMessageTask._start"),
           ("canopen.network", "Network.connect"), ("canopen.network", "Network.disconnect"),
           ("canopen.node.remote", "RemoteNode.__init__"), ("canopen.node.remote", "RemoteNode.associate_network"),
           ("canopen.node.remote", "RemoteNode.remove_network"), ("canopen.node.remote", "RemoteNode.add_sdo"),
           ("canopen.node.local", "LocalNode.associate_network"), ("canopen.node.local", "LocalNode.remove_network"),
           ("canopen.node.base", "BaseNode.has_network")]

logging.disable(logging.CRITICAL)

CASE_TIMEOUT = 30            # vlib/core.py: a case that does not come back becomes Err(other, "no result within N s")
REENTRY_TIMEOUT = 3.0        # a scripted operation inside a callback that does not come back (same thread!) = blocked

KINDS = ("sdo_resp", "heartbeat", "emcy", "nmt", "sdo_req")
_LOG = []
_CUR = {"world": None, "scripts": {}}


class _Blocked(BaseException):
    """A scripted operation performed inside a callback did not return (deadlock on the dispatching thread)."""


def _record(hv, can_id, data, timestamp):
    """Log one invocation; a user callback with a script then performs its operation on the network
    (re-entrant callback), swallowing the operation's own exception like an application would."""
    _LOG.append((hv, can_id, bytes(data), timestamp))
    if hv[0] == 0:
        op = _CUR["scripts"].get(hv[1])
        if op is not None and _CUR["world"] is not None:
            _CUR["world"].do_script(op)
_PATCHED = [False]


def _tagged(orig, kind):
    """Class-level logging wrapper: an instance the harness has tagged (obj._c10_tags[kind] = callback
    code) logs the call instead of running the original.  The library therefore subscribes and
    unsubscribes REAL bound methods (`self.nmt.on_heartbeat` is a fresh, equal-but-not-identical
    object at every attribute access)."""
    def wrapper(self, can_id, data, timestamp):
        tags = getattr(self, "_c10_tags", None)
        hv = tags.get(kind) if tags else None
        if hv is None:
            return orig(self, can_id, data, timestamp)
        _LOG.append((hv, can_id, bytes(data), timestamp))
    wrapper._c10_kind = kind
    return wrapper


def _patch_lss():
    """LssMaster.on_message_received is subscribed by Network.__init__; log its invocations.
    The callbacks of nodes are logged through their classes (see _tagged)."""
    if _PATCHED[0]:
        return
    from canopen.lss import LssMaster
    orig = LssMaster.on_message_received

    def on_message_received(self, can_id, data, timestamp):
        _LOG.append(([1], can_id, bytes(data), timestamp))
        return orig(self, can_id, data, timestamp)
    LssMaster.on_message_received = on_message_received

    from canopen.sdo import SdoClient, SdoServer
    from canopen.nmt import NmtBase, NmtMaster, NmtSlave
    from canopen.emcy import EmcyConsumer
    SdoClient.on_response = _tagged(SdoClient.on_response, "resp")
    SdoServer.on_request = _tagged(SdoServer.on_request, "req")
    NmtMaster.on_heartbeat = _tagged(NmtMaster.on_heartbeat, "hb")
    NmtBase.on_command = _tagged(NmtBase.on_command, "cmd")
    if "on_command" in vars(NmtSlave):
        NmtSlave.on_command = _tagged(NmtSlave.on_command, "cmd")
    if "on_command" in vars(NmtMaster):
        NmtMaster.on_command = _tagged(NmtMaster.on_command, "cmd")
    EmcyConsumer.on_emcy = _tagged(EmcyConsumer.on_emcy, "emcy")
    _PATCHED[0] = True


class Recorder:
    """Application callback given as a bound method: rec.on_frame is a new object at every access."""
    def __init__(self, hv):
        self.hv = hv

    def on_frame(self, can_id, data, timestamp):
        _record(self.hv, can_id, data, timestamp)


class ListRec(list):
    """Callable frame recorder derived from list: FALSY while it has not received a frame (len 0).
    Identity equality, so that two empty recorders are different callbacks."""
    def __init__(self, hv):
        super().__init__()
        self._hv = hv

    def __call__(self, can_id, data, timestamp):
        self.append((can_id, bytes(data), timestamp))
        _record(self._hv, can_id, data, timestamp)

    def __eq__(self, other): return self is other
    def __ne__(self, other): return self is not other
    __hash__ = object.__hash__


class BoolRec:
    """Callable with __bool__: falsy until it has received its first frame."""
    def __init__(self, hv):
        self._hv = hv
        self.count = 0

    def __call__(self, can_id, data, timestamp):
        self.count += 1
        _record(self._hv, can_id, data, timestamp)

    def __bool__(self): return self.count > 0


class FakeBus:
    """Records what the library hands to python-can."""
    channel_info = "fake"

    def send(self, msg, timeout=None):
        self.sent.append(msg)

    def __init__(self, modify=False):
        self.sent, self.periodic, self.calls, self.modify = [], [], [], modify

    def send_periodic(self, msg, period, *a, **k):
        self.periodic.append((msg, period))
        calls = self.calls
        calls.append([2, frame_obs(msg), period])

        class Task:
            def stop(self): calls.append([1])

        class ModTask(Task):
            def modify_data(self, m): calls.append([0, frame_obs(m)])
        return ModTask() if self.modify else Task()

    def shutdown(self): pass


def _mkcb(hv):
    def cb(can_id, data, timestamp):
        _record(hv, can_id, data, timestamp)
    cb._hv = hv
    return cb


class World:
    def __init__(self):
        import canopen
        _patch_lss()
        self.canopen = canopen
        self.net = canopen.Network()
        self.user = {}
        self.objs = {}
        self.chan_order = []     # node objects in order of their first add_sdo
        self.connected = False
        World._n += 1
        self.channel = f"c10-{World._n}"
        self.net.NOTIFIER_CYCLE = 0.005
        self.net.NOTIFIER_SHUTDOWN_TIMEOUT = 1.0

    _n = 0

    def ucb(self, u):
        """u = 2: a list-derived callable (falsy while empty); u = 5: a callable with __bool__ (falsy before
        its first frame); other u: u % 3 == 0 a bound method created afresh at every use, else one
        function object"""
        if u not in self.user:
            self.user[u] = (ListRec([0, u]) if u == 2 else BoolRec([0, u]) if u == 5 else
                            Recorder([0, u]) if u % 3 == 0 else _mkcb([0, u]))
        r = self.user[u]
        return r.on_frame if isinstance(r, Recorder) else r

    def do_script(self, op):
        """One operation from inside a callback, on the dispatching thread, under a watchdog."""
        import signal, threading, time
        def run():
            try:
                self.do(op)
            except Exception:
                pass
        if threading.current_thread() is not threading.main_thread() or not hasattr(signal, "setitimer"):
            return run()
        def handler(signum, frame):
            raise _Blocked()
        oldh = signal.signal(signal.SIGALRM, handler)
        rem, _ = signal.setitimer(signal.ITIMER_REAL, REENTRY_TIMEOUT)
        t0 = time.monotonic()
        try:
            run()
        finally:
            signal.setitimer(signal.ITIMER_REAL, 0)
            signal.signal(signal.SIGALRM, oldh)
            if rem > 0:
                signal.setitimer(signal.ITIMER_REAL, max(0.05, rem - (time.monotonic() - t0)))

    def close(self):
        if self.connected:
            self.connected = False
            try:
                self.net.disconnect()
            except Exception:
                pass

    def node(self, trip):
        key = tuple(trip)
        if key not in self.objs:
            uid, nid, local = key
            od = self.canopen.ObjectDictionary()
            base = [2, uid, nid, bool(local)]
            if local:
                n = self.canopen.LocalNode(nid, od)
                n.sdo._c10_tags = {"req": base + [4]}
                n.nmt._c10_tags = {"cmd": base + [3]}
            else:
                n = self.canopen.RemoteNode(nid, od)
                n.sdo._c10_tags = {"resp": base + [0]}
                n.nmt._c10_tags = {"hb": base + [1], "cmd": base + [3]}
                n.emcy._c10_tags = {"emcy": base + [2]}
            n._trip = key
            self.objs[key] = n
        return self.objs[key]

    def handler(self, h):
        if h[0] == "u":
            return self.ucb(h[1])
        if h[0] == "lss":
            return self.net.lss.on_message_received
        n = self.node(h[1])
        k = h[2]
        if k == 0: return n.sdo.on_response
        if k == 1: return n.nmt.on_heartbeat
        if k == 2: return n.emcy.on_emcy
        if k == 3: return n.nmt.on_command
        if k == 4: return n.sdo.on_request
        if k == 5:
            chans = getattr(n, "sdo_channels", [])
            if 1 <= h[3] < len(chans):
                return chans[h[3]].on_response
            return _mkcb([9])           # a channel that was never created: subscribed nowhere
        raise ValueError(h)

    def hv_of(self, cb):
        owner = getattr(cb, "__self__", None)
        if owner is None:
            return getattr(cb, "_hv", [9])
        if isinstance(owner, Recorder):
            return owner.hv
        if owner is self.net.lss:
            return [1]
        tags = getattr(owner, "_c10_tags", None)
        kind = getattr(getattr(cb, "__func__", None), "_c10_kind", None)
        if tags and kind in tags:
            return tags[kind]
        return [9]

    def dump(self):
        net = self.net
        subs = [[c, [self.hv_of(cb) for cb in l]] for c, l in net.subscribers.items()]
        nodes = [[nid] + [getattr(n, "_trip", (-1, -1, False))[0], getattr(n, "_trip", (-1, -1, False))[1],
                          bool(getattr(n, "_trip", (-1, -1, False))[2])] for nid, n in net.nodes.items()]
        chans = [[t[0], t[1], bool(t[2]), [cl.tx_cobid for cl in self.objs[t].sdo_channels[1:]]]
                 for t in self.chan_order]
        return [subs, nodes, list(net.scanner.nodes), chans]

    def do(self, op):
        import can
        net, k = self.net, op[0]
        if k == "sub":
            net.subscribe(op[1], self.ucb(op[2]))
        elif k == "unsub":
            if op[2] is None:
                net.unsubscribe(op[1])
            else:
                net.unsubscribe(op[1], self.handler(op[2]))
        elif k == "add":
            n = self.node(op[1])
            if op[1][2]:
                net.create_node(n)
            else:
                net.add_node(n)
        elif k == "del":
            del net[op[1]]
        elif k == "notify":
            net.notify(op[1], bytearray(op[2]), op[3])
        elif k == "recv":
            _, c, data, ts, remote, ext, err = op
            msg = can.Message(arbitration_id=c, data=bytes(data), timestamp=ts, is_remote_frame=bool(remote),
                              is_extended_id=bool(ext), is_error_frame=bool(err))
            net.listeners[0].on_message_received(msg)
        elif k == "reset":
            net.scanner.reset()
        elif k == "add_sdo":
            n = self.node(op[1])
            client = n.add_sdo(op[2], op[3])          # AttributeError for a LocalNode
            t = tuple(op[1])
            client._c10_tags = {"resp": [2, t[0], t[1], bool(t[2]), 5, len(n.sdo_channels) - 1]}
            if t not in self.chan_order:
                self.chan_order.append(t)
        elif k == "reassoc":
            n = self.node(op[1])
            if net.nodes.get(n.id) is n:
                n.associate_network(net)
        elif k == "connect":
            if not self.connected:
                net.connect(interface="virtual", channel=self.channel)
                self.connected = True
        elif k == "disconnect":
            self.connected = False
            net.disconnect()
        else:
            raise ValueError(op)


def _canon_ts(t):
    return t if isinstance(t, int) and not isinstance(t, bool) else -1


def frame_obs(m):
    return [m.arbitration_id, bytes(m.data), bool(m.is_remote_frame), bool(m.is_extended_id),
            bool(m.is_error_frame), m.dlc]


def impl(c):
    k = c["kind"]
    if k in ("hist", "reent"):
        def f():
            w = World()
            _CUR["world"] = w
            _CUR["scripts"] = {int(u): op for u, op in c.get("scripts", [])} if k == "reent" else {}
            try:
                out = []
                for op in c["ops"]:
                    del _LOG[:]
                    r = guarded(w.do, op)
                    if isinstance(r, Err):
                        out.append(r)
                    else:
                        out.append([[hv, cid, data, _canon_ts(ts)] for hv, cid, data, ts in _LOG])
                out.append(w.dump())
                return out
            except _Blocked:
                from vlib.obs import E_OTHER
                return Err(E_OTHER, f"no result within {REENTRY_TIMEOUT} s: an operation performed inside a callback "
                                    f"never returned (step {len(out)} {c['ops'][len(out)]})")
            finally:
                _CUR["world"], _CUR["scripts"] = None, {}
                w.close()
        return guarded(f)
    if k == "scan":
        def f():
            import canopen
            net = canopen.Network()
            for i in c["ids"]:
                net.scanner.on_message_received(i)
            return list(net.scanner.nodes)
        return guarded(f)
    if k == "send":
        def f():
            import canopen
            bus = FakeBus() if c["bus"] else None
            net = canopen.Network(bus)
            net.send_message(c["id"], bytes(c["data"]), c["remote"])
            return [frame_obs(m) for m in bus.sent]
        return guarded(f)
    if k == "periodic":
        def f():
            import canopen
            bus = FakeBus()
            net = canopen.Network(bus)
            t = net.send_periodic(c["id"], bytes(c["data"]), c["period"], c["remote"])
            return [frame_obs(t.msg), [[frame_obs(m), p] for m, p in bus.periodic]]
        return guarded(f)
    if k == "periodic_upd":
        def f():
            import canopen
            bus = FakeBus(modify=c["modify"])
            net = canopen.Network(bus)
            t = net.send_periodic(c["id"], bytes(c["data"]), c["period"], c["remote"])
            out = [frame_obs(t.msg), []]
            for d in c["updates"]:
                del bus.calls[:]
                t.update(bytes(d))
                out[1].append([frame_obs(t.msg), [list(x) for x in bus.calls]])
            return out
        return guarded(f)
    raise ValueError(k)


# ------------------------------------------------------------------ oracle (independent of model and library)
def _h(hv):
    """observed callback -> reference callback tuple"""
    if hv[0] == 0: return ("u", hv[1])
    if hv[0] == 1: return ("lss",)
    if hv[0] == 2 and hv[4] == 5: return ("n", (hv[1], hv[2], bool(hv[3])), 5, hv[5])
    if hv[0] == 2: return ("n", (hv[1], hv[2], bool(hv[3])), hv[4])
    return ("?",)


def _href(h):
    if h[0] == "u": return ("u", h[1])
    if h[0] == "lss": return ("lss",)
    if h[2] == 5: return ("n", (h[1][0], h[1][1], bool(h[1][2])), 5, h[3])
    return ("n", (h[1][0], h[1][1], bool(h[1][2])), h[2])


def _check_delivery(ref, i, op, got, c, data, ts):
    exp = ref.deliver(c, bytes(data), ts)
    if isinstance(got, Err):
        return ("dispatch_raised", f"step {i} {op}: {got!r}")
    obs = [(_h(hv), cid, bytes(d), t) for hv, cid, d, t in got]
    if obs == exp:
        return None
    for h, cid, d, t in obs:
        if h[0] == "n" and not ref.registered(h[1]):
            return ("removed_node_handler_invoked",
                    f"step {i} {op}: callback {h} of a node object that is not registered saw the frame")
    hs = [x[0] for x in obs]
    if len(set(hs)) != len(hs):
        return ("duplicate_delivery", f"step {i} {op}: delivered {hs}, subscribed {[x[0] for x in exp]}")
    if [x[0] for x in obs] == [x[0] for x in exp]:
        return ("delivery_arguments", f"step {i} {op}: callbacks got {obs}, frame was id={c} data={bytes(data)!r} ts={ts}")
    if sorted(map(repr, hs)) == sorted(repr(x[0]) for x in exp):
        return ("delivery_order", f"step {i} {op}: delivered {hs}, subscription order {[x[0] for x in exp]}")
    return ("delivery_mismatch", f"step {i} {op}: delivered to {hs}, subscribed {[x[0] for x in exp]}")


STOP = object()

def _ref_apply(ref, op):
    """Apply a non-frame operation to the reference.  Returns True (must succeed), None (either
    outcome), or STOP (the property does not say what happens next)."""
    k = op[0]
    if k == "sub":
        ref.subscribe(op[1], ("u", op[2]))
        return True
    if k == "unsub":
        r = ref.unsubscribe_all(op[1]) if op[2] is None else ref.unsubscribe(op[1], _href(op[2]))
        return None if r is UNSPECIFIED else r
    if k == "add":
        r = ref.add_node((op[1][0], op[1][1], bool(op[1][2])))
        return STOP if r is UNSPECIFIED else r
    if k == "del":
        r = ref.remove_node(op[1])
        if r is UNSPECIFIED:
            return STOP if op[1] in ref.nodes else None   # removing a node that is not there: either outcome
        return r
    if k == "reset":
        ref.found = []
        return True
    if k == "add_sdo":
        r = ref.add_sdo((op[1][0], op[1][1], bool(op[1][2])), op[3])
        return None if r is UNSPECIFIED else r
    if k == "reassoc":
        # attaching an attached node again must not change who receives what, except that a
        # callback of it somebody had unsubscribed is subscribed again
        obj = (op[1][0], op[1][1], bool(op[1][2]))
        if ref.registered(obj):
            for cid, h in ref.subscriptions_of(obj):
                ref.subscribe(cid, h)
        return True
    if k in ("connect", "disconnect"):
        return True                # the bus connection has no bearing on who is subscribed
    raise ValueError(op)


def _check_delivery_re(ref, i, op, got, c, data, ts, scripts):
    """A frame whose callbacks may operate on the network while they are invoked: exactly the
    callbacks subscribed to the id when the frame arrived are invoked, once each, in order; what they
    do to the table only shows on later frames."""
    if isinstance(got, Err):
        return ("dispatch_raised", f"step {i} {op}: {got!r}")
    exp = ref.deliver(c, bytes(data), ts)                     # also updates the reference scanner
    obs = [(_h(hv), cid, bytes(d), t) for hv, cid, d, t in got]
    if obs != exp:
        return ("reentrant_dispatch_wrong",
                f"step {i} {op}: invoked {[x[0] for x in obs]}, subscribed when the frame arrived {[x[0] for x in exp]}"
                + ("" if [x[0] for x in obs] != [x[0] for x in exp] else f"; arguments {obs}"))
    for h, _, _, _ in exp:
        sop = scripts.get(h[1]) if h[0] == "u" else None
        if sop is not None and _ref_apply(ref, sop) is STOP:
            return STOP
    return None


def oracle_hist(c, o):
    if isinstance(o, Err):
        if "no result within" in (o.text or ""):
            return ("dispatch_blocked", o.text)
        return ("history_crashed", repr(o))
    ops = c["ops"]
    scripts = {int(u): op for u, op in c.get("scripts", [])} if c["kind"] == "reent" else {}
    if len(o) != len(ops) + 1:
        return ("history_crashed", f"{len(o)} observations for {len(ops)} operations")
    ref = RefNet()
    for i, (op, got) in enumerate(zip(ops, o)):
        k = op[0]
        if k in ("notify", "recv"):
            if k == "notify":
                cid, data, ts = op[1], op[2], op[3]
            else:
                _, cid, data, ts, remote, ext, err = op
                if remote or err:
                    if got != []:
                        return ("error_or_remote_frame_dispatched", f"step {i} {op}: {got!r}")
                    continue
            f = (_check_delivery_re(ref, i, op, got, cid, data, ts, scripts) if scripts else
                 _check_delivery(ref, i, op, got, cid, data, ts))
            if f is STOP: return None
            if f: return f
            continue
        must = _ref_apply(ref, op)
        if must is STOP:
            return None            # the property does not say what happens next
        if must is True and got != []:
            return ("operation_failed" if isinstance(got, Err) else "spurious_delivery", f"step {i} {op}: {got!r}")
        if not isinstance(got, Err) and got != []:
            return ("spurious_delivery", f"step {i} {op}: {got!r}")
    if o[-1][2] != ref.found:
        return ("scanner_wrong", f"scanner.nodes = {o[-1][2]}, ids received name {ref.found}")
    return None


def _frame_fail(c, fr, what):
    cid, data, remote = c["id"], bytes(c["data"]), bool(c["remote"])
    if not isinstance(fr, list) or len(fr) != 6:
        return ("frame_missing", f"{what}: {fr!r}")
    if fr[0] != cid:
        return ("frame_id", f"{what}: id {fr[0]:#x} for {cid:#x}")
    if fr[2] != remote:
        return ("frame_remote_flag", f"{what}: remote={fr[2]} for remote={remote} id={cid:#x}")
    if fr[3] != (cid > 0x7FF):
        return ("frame_extended_flag", f"{what}: extended={fr[3]} for id {cid:#x}")
    if fr[4]:
        return ("frame_error_flag", f"{what}: error frame for id {cid:#x}")
    if not remote and (fr[1] != data or fr[5] != len(data)):
        # a remote frame has no data field: python-can discards the payload (documented in notes/C10.md)
        return ("frame_data", f"{what}: data {fr[1]!r} dlc {fr[5]} for {data!r}")
    return None


def oracle(c, o):
    k = c["kind"]
    if k in ("hist", "reent"):
        return oracle_hist(c, o)
    if k == "scan":
        exp = ref_scan(c["ids"])
        if o != exp:
            if not isinstance(o, Err):
                extra = [n for n in o if n not in exp]
                if extra:
                    return ("scanner_lists_foreign_id", f"ids {c['ids'][:12]}...: nodes {o}, only {exp} are named; extra {extra}")
                if len(set(o)) != len(o):
                    return ("scanner_duplicates", f"ids {c['ids'][:12]}...: {o}")
            return ("scanner_wrong", f"ids {c['ids'][:12]}...: nodes {o!r}, expected {exp}")
        return None
    if k == "send":
        if not c["bus"]:
            return None
        if isinstance(o, Err) or len(o) != 1:
            return ("frame_missing", f"send_message({c['id']:#x}) handed {o!r} to the bus")
        return _frame_fail(c, o[0], "send_message")
    if k == "periodic":
        if isinstance(o, Err) or len(o) != 2 or len(o[1]) != 1:
            return ("frame_missing", f"send_periodic({c['id']:#x}): {o!r}")
        f = _frame_fail(c, o[0], "PeriodicMessageTask.msg") or _frame_fail(c, o[1][0][0], "bus.send_periodic")
        if f: return f
        if o[1][0][1] != c["period"]:
            return ("periodic_period", f"period {o[1][0][1]!r} for {c['period']}")
        return None
    if k == "periodic_upd":
        if isinstance(o, Err) or len(o) != 2 or len(o[1]) != len(c["updates"]):
            return ("frame_missing", f"send_periodic({c['id']:#x}) + {len(c['updates'])} update(): {o!r}")
        f = _frame_fail(c, o[0], "PeriodicMessageTask.msg")
        if f: return f
        for i, (d, (msg, calls)) in enumerate(zip(c["updates"], o[1])):
            cu = dict(c, data=d)
            f = _frame_fail(cu, msg, f"task.msg after update #{i + 1}")
            if f: return (f[0] + "_after_update", f[1])
            for call in calls:
                if call[0] in (0, 2):
                    f = _frame_fail(cu, call[1], f"message handed to the bus by update #{i + 1}")
                    if f: return (f[0] + "_after_update", f[1])
        return None
    raise ValueError(k)


# ------------------------------------------------------------------ Gallina printing
def g_obj(t):
    return f"(Build_nobj {gz(t[0])} {gz(t[1])} {gbool(t[2])})"


GK = ("KSdoResp", "KHeartbeat", "KEmcy", "KNmt", "KSdoReq")


def g_handler(h):
    if h[0] == "u": return f"(HUser {gz(h[1])})"
    if h[0] == "lss": return "HLss"
    if h[2] == 5: return f"(HNode {g_obj(h[1])} (KSdoExtra {gz(h[3])}))"
    return f"(HNode {g_obj(h[1])} {GK[h[2]]})"


def g_op(op):
    k = op[0]
    if k == "sub": return f"OSub {gz(op[1])} {gz(op[2])}"
    if k == "unsub": return f"OUnsub {gz(op[1])} " + ("None" if op[2] is None else f"(Some {g_handler(op[2])})")
    if k == "add": return f"OAdd {g_obj(op[1])}"
    if k == "del": return f"ODel {gz(op[1])}"
    if k == "notify": return f"ONotify {gz(op[1])} {gzlist(op[2])} {gz(op[3])}"
    if k == "recv":
        _, c, data, ts, remote, ext, err = op
        # can.Message drops the payload of a remote frame; such a frame is not dispatched anyway
        return f"ORecv (Build_frame {gz(c)} {gzlist(data)} {gbool(remote)} {gbool(ext)} {gbool(err)} {gz(ts)})"
    if k == "reset": return "OScanReset"
    if k == "add_sdo": return f"OAddSdo {g_obj(op[1])} {gz(op[2])} {gz(op[3])}"
    if k == "reassoc": return f"OReassoc {g_obj(op[1])}"
    if k == "connect": return "OConnect"
    if k == "disconnect": return "ODisconnect"
    raise ValueError(op)


def coq_case(c):
    k = c["kind"]
    if k == "hist": return "CHist " + glist([g_op(op) for op in c["ops"]])
    if k == "reent":
        return ("CReent " + glist([f"({gz(u)}, {g_op(op)})" for u, op in c["scripts"]]) + " "
                + glist([g_op(op) for op in c["ops"]]))
    if k == "scan": return f"CScan {gzlist(c['ids'])}"
    if k == "send": return f"CSend {gbool(c['bus'])} {gz(c['id'])} {gzlist(c['data'])} {gbool(c['remote'])}"
    if k == "periodic": return f"CPeriodic {gz(c['id'])} {gzlist(c['data'])} {gz(c['period'])} {gbool(c['remote'])}"
    if k == "periodic_upd":
        return (f"CPeriodicUpd {gbool(c['modify'])} {gz(c['id'])} {gzlist(c['data'])} {gz(c['period'])} {gbool(c['remote'])} "
                + glist([gzlist(u) for u in c["updates"]]))
    raise ValueError(k)


def nontrivial(c):
    k = c["kind"]
    if k in ("hist", "reent"):
        armed = False
        for op in c["ops"]:
            if op[0] in ("sub", "add"): armed = True
            if armed and op[0] in ("notify", "recv"): return True
        return False
    if k == "scan": return len(c["ids"]) > 0
    return True


# ------------------------------------------------------------------ generators
NODE_ID_POOL = (1, 2, 5, 63, 64, 100, 126, 127)
ODD_IDS = (0x123, 0x7FF, 0x800, 0x801, 0x1FFFFFFF, 0x981, 0x20000705, 0x7E5, 0x77F, 0x80, 0x100)


def gen_history(rng, nsteps, dirty):
    nids = rng.sample(NODE_ID_POOL, rng.choice((1, 2, 2, 3)))
    objs = []
    uid = 0
    for n in nids:
        for local in rng.sample((False, False, True, True), rng.choice((1, 2, 2, 3))):
            uid += 1
            objs.append([uid, n, local])
    node_cobs = [0]
    for n in nids:
        node_cobs += [0x80 + n, 0x580 + n, 0x600 + n, 0x700 + n]
    tpdo = [rng.choice((0x180, 0x280, 0x380, 0x480)) + rng.choice(nids + [rng.randrange(1, 128)]) for _ in range(2)]
    free = [0x7E4] + tpdo + rng.sample(ODD_IDS, 3)
    # response COB-IDs for additional SDO channels: a fresh one, one shared by several channels /
    # objects, and one that collides with an id already in use (a node's own SDO tx id or a free id)
    xtx = [0x5C0 + rng.choice(nids) % 0x40, 0x5FF, rng.choice(node_cobs[1:] + free)]
    ids = node_cobs + free + xtx[:2]
    users = list(range(6))
    ops = []
    ts = 0
    n_sdo = 0
    weights = [("sub", 20), ("unsub1", 11), ("unsuball", 3), ("add", 9), ("del", 5), ("notify", 40), ("recv", 9),
               ("reset", 1), ("resub2", 2), ("add_sdo", 3), ("reassoc", 3), ("bus", 2), ("falsy", 2)]
    connected = False
    if dirty:
        weights += [("tamper", 3)]
    names = [w[0] for w in weights]
    ws = [w[1] for w in weights]
    while len(ops) < nsteps:
        k = rng.choices(names, ws)[0]
        if k == "sub":
            ops.append(["sub", rng.choice(ids), rng.choice(users)])
        elif k == "falsy":    # a callable that may be falsy unsubscribed next to other subscribers of the id
            c, u, v = rng.choice(ids), rng.choice((2, 5)), rng.choice((0, 1, 3, 4, 2, 5))
            ops += [["sub", c, v], ["sub", c, u]]
            if rng.random() < 0.5:
                ts += 1
                ops.append(["notify", c, [rng.randrange(256)], ts])
            ts += 1
            ops += [["unsub", c, ["u", u]], ["notify", c, [rng.randrange(256)], ts]]
        elif k == "resub2":   # the same subscription twice in a row
            c, u = rng.choice(ids), rng.choice(users)
            ops += [["sub", c, u], ["sub", c, u]]
        elif k == "unsub1":
            h = ["u", rng.choice(users)] if rng.random() < 0.93 else ["lss"]
            prev = [op for op in ops if op[0] == "sub"]
            if prev and rng.random() < 0.7:     # mostly something that was subscribed at some point
                p = rng.choice(prev)
                ops.append(["unsub", p[1], ["u", p[2]]])
            else:
                ops.append(["unsub", rng.choice(ids), h])
        elif k == "unsuball":
            ops.append(["unsub", rng.choice(free if not dirty else ids), None])
        elif k == "tamper":
            o = rng.choice(objs)
            kinds = (4, 3) if o[2] else (0, 1, 2, 3)
            kd = rng.choice(kinds)
            cob = {0: 0x580 + o[1], 1: 0x700 + o[1], 2: 0x80 + o[1], 3: 0, 4: 0x600 + o[1]}[kd]
            if rng.random() < 0.2:
                cob = rng.choice(ids)
            mine = [op for op in ops if op[0] == "add_sdo" and op[1] == o]
            if mine and rng.random() < 0.4:       # one of its additional SDO channels
                k2 = rng.randrange(1, len(mine) + 2)
                ops.append(["unsub", mine[min(k2, len(mine)) - 1][3], ["n", o, 5, k2]])
            else:
                ops.append(["unsub", cob, ["n", o, kd]])
        elif k == "add_sdo":
            if n_sdo >= 8:
                continue
            n_sdo += 1
            cand = [o for o in objs if not o[2]] or objs
            o = rng.choice(cand if rng.random() < 0.95 else objs)
            ops.append(["add_sdo", o, 0x640 + o[1] % 0x40, rng.choice(xtx)])
        elif k == "add":
            ops.append(["add", rng.choice(objs)])
        elif k == "del":
            ops.append(["del", rng.choice(nids + [rng.randrange(1, 128)] if rng.random() < 0.1 else nids)])
        elif k == "notify":
            ts += rng.randrange(1, 5)
            data = [rng.randrange(256) for _ in range(rng.choice((0, 1, 2, 8, 8, rng.randrange(9))))]
            ops.append(["notify", rng.choice(ids), data, ts])
        elif k == "recv":
            ts += rng.randrange(1, 5)
            data = [rng.randrange(256) for _ in range(rng.randrange(9))]
            c = rng.choice(ids)
            remote = rng.random() < 0.25
            err = rng.random() < 0.2
            ext = (c > 0x7FF) if rng.random() < 0.8 else rng.random() < 0.5
            ops.append(["recv", c, data, ts, remote, ext, err])
        elif k == "reset":
            ops.append(["reset"])
        elif k == "reassoc":
            # mostly an object that is on the network right now
            added = [op[1] for op in ops if op[0] == "add"]
            ops.append(["reassoc", rng.choice(added[-3:]) if added and rng.random() < 0.8 else rng.choice(objs)])
        elif k == "bus":       # connect / disconnect alternate; sometimes an immediate reconnect
            if sum(1 for op in ops if op[0] == "connect") >= 8:
                continue
            if connected and rng.random() < 0.5:
                ops += [["disconnect"], ["connect"]]
            else:
                ops.append(["disconnect"] if connected else ["connect"])
                connected = not connected
    return dict(kind="hist", ops=ops[:nsteps])


def gen_reentrant(rng, nsteps):
    """A history in which 1-3 user callbacks are re-entrant: when invoked they perform one scripted
    operation on the same network (subscribe / unsubscribe incl. themselves and 'all', remove / add /
    replace / re-attach a node, add an SDO channel)."""
    h = gen_history(rng, nsteps, dirty=False)
    ops = h["ops"]
    ids = sorted({op[1] for op in ops if op[0] in ("sub", "notify", "recv")}) or [0x123]
    objs = [list(t) for t in sorted({tuple(op[1]) for op in ops if op[0] == "add"})] or [[1, 5, False]]
    scripts = []
    for u in rng.sample(range(6), rng.choice((1, 2, 2, 3))):
        r = rng.random()
        c = rng.choice(ids)
        if r < 0.2: sop = ["sub", c, rng.randrange(6)]
        elif r < 0.35: sop = ["unsub", c, ["u", u]]                       # one-shot: unsubscribes itself
        elif r < 0.5: sop = ["unsub", c, ["u", rng.randrange(6)]]
        elif r < 0.58: sop = ["unsub", c, None]
        elif r < 0.8: sop = ["del", rng.choice(objs)[1]]
        elif r < 0.93: sop = ["add", rng.choice(objs)]
        elif r < 0.97: sop = ["reassoc", rng.choice(objs)]
        else:
            o = rng.choice(objs)
            sop = ["add_sdo", o, 0x640 + o[1] % 0x40, rng.choice(ids)]
        scripts.append([u, sop])
    return dict(kind="reent", scripts=scripts, ops=ops)


def boundary_ids():
    out = []
    for svc in (0, 0x80, 0x100, 0x180, 0x200, 0x280, 0x300, 0x380, 0x400, 0x480, 0x500, 0x580, 0x600, 0x680, 0x700, 0x780):
        out += [svc - 1, svc, svc + 1, svc + 0x7E, svc + 0x7F]
    return out


def gen_cases(rng, tier):
    cases = []
    n_hist, n_long = {"quick": (70, 6), "thorough": (260, 14), "search": (120, 4)}[tier]
    for i in range(n_hist):
        cases.append(gen_history(rng, rng.choice((20, 60, 150, 300, 400)), dirty=(i % 5 == 4)))
    for i in range(n_long):
        cases.append(gen_history(rng, {"quick": 700, "thorough": 3000, "search": 600}[tier], dirty=(i % 4 == 3)))
    for i in range({"quick": 60, "thorough": 300, "search": 100}[tier]):
        cases.append(gen_reentrant(rng, rng.choice((20, 40, 80, 150, 300))))
    # ---- scanner
    all11 = list(range(2048))
    cases.append(dict(kind="scan", ids=all11))
    cases.append(dict(kind="scan", ids=all11[::-1]))
    sh = all11[:]
    rng.shuffle(sh)
    cases.append(dict(kind="scan", ids=sh))
    hi = [(rng.randrange(1, 1 << 18) << 11) | x for x in rng.sample(all11, 400)]
    cases.append(dict(kind="scan", ids=hi))
    cases.append(dict(kind="scan", ids=[x + 0x800 for x in all11[::3]] + [x + (1 << 29) for x in all11[::7]]))
    for _ in range({"quick": 500, "thorough": 900, "search": 300}[tier]):
        n = rng.randrange(0, 14)
        ids = []
        for _ in range(n):
            r = rng.random()
            if r < 0.45:
                ids.append(rng.choice((0x80, 0x180, 0x280, 0x380, 0x480, 0x580, 0x700)) + rng.choice((0, 1, 2, 5, 126, 127, rng.randrange(128))))
            elif r < 0.6:
                ids.append(rng.choice(boundary_ids()))
            elif r < 0.85:   # a predefined-connection-set id with high bits set (29-bit and beyond)
                ids.append((rng.choice((1, 2, 3, 0x100, 0x3FFFF, 1 << 18, rng.randrange(1, 1 << 20))) << 11)
                           | rng.choice((0x80, 0x180, 0x280, 0x380, 0x480, 0x580, 0x700)) | rng.choice((1, 5, 127, rng.randrange(128))))
            elif r < 0.93:
                ids.append(rng.randrange(1 << 29))
            else:
                ids.append(-rng.randrange(1, 4096))
        if ids and rng.random() < 0.5:
            ids += rng.sample(ids, min(3, len(ids)))
        cases.append(dict(kind="scan", ids=ids))
    for i in boundary_ids():
        cases.append(dict(kind="scan", ids=[i, i + 0x800, i]))
    # ---- frames
    fid = [0, 1, 0x7FE, 0x7FF, 0x800, 0x801, 0xFFF, 0x1FFFFFFF, 0x20000000, 0x181, 0x601, 0x7E5]
    fid += rng.sample(range(0x800), {"quick": 150, "thorough": 200, "search": 100}[tier])
    fid += [rng.randrange(0x800, 1 << 29) for _ in range({"quick": 150, "thorough": 400, "search": 200}[tier])]
    fid += [0x7FF + d for d in range(-3, 4)]
    for c in fid:
        remote = rng.random() < 0.3
        n = rng.choice((0, 1, 8, rng.randrange(9)))
        data = [] if (remote and rng.random() < 0.7) else [rng.randrange(256) for _ in range(n)]
        cases.append(dict(kind="send", bus=True, id=c, data=data, remote=remote))
        if rng.random() < 0.5:
            cases.append(dict(kind="periodic", id=c, data=[rng.randrange(256) for _ in range(rng.randrange(9))],
                              period=rng.randrange(1, 1000), remote=rng.random() < 0.2))
    for c in (0x7FF, 0x800):
        for remote in (False, True):
            cases.append(dict(kind="send", bus=True, id=c, data=[1, 2, 3], remote=remote))
            cases.append(dict(kind="periodic", id=c, data=[1, 2, 3], period=1, remote=remote))
    # periodic tasks whose payload is changed with update(): both flavours of bus task, same / other
    # payload, same / other length, ids on both sides of 0x7FF
    uid_pool = [0, 1, 0x123, 0x181, 0x7FE, 0x7FF, 0x800, 0x801, 0x12345, 0x1FFFFFFF]
    for i in range({"quick": 120, "thorough": 600, "search": 200}[tier]):
        cid = rng.choice(uid_pool) if i % 2 == 0 else rng.choice((rng.randrange(0x800), rng.randrange(0x800, 1 << 29)))
        n = rng.randrange(9)
        data = [rng.randrange(256) for _ in range(n)]
        ups, cur = [], data
        for _ in range(rng.choice((1, 1, 2, 3, 4))):
            r = rng.random()
            if r < 0.25: nxt = list(cur)
            elif r < 0.7: nxt = [rng.randrange(256) for _ in range(len(cur))]
            else: nxt = [rng.randrange(256) for _ in range(rng.randrange(9))]
            ups.append(nxt)
            cur = nxt
        cases.append(dict(kind="periodic_upd", modify=(i % 4 < 2), id=cid, data=data, period=rng.randrange(1, 1000),
                          remote=rng.random() < 0.1, updates=ups))
    cases.append(dict(kind="send", bus=False, id=0x601, data=[1], remote=False))
    cases.append(dict(kind="send", bus=True, id=0x123, data=list(range(12)), remote=False))
    if tier == "thorough":
        for c in range(2048):
            cases.append(dict(kind="send", bus=True, id=c, data=[c & 255, c >> 8], remote=False, model=(c % 16 == 0)))
            cases.append(dict(kind="scan", ids=[c], model=False))
            cases.append(dict(kind="scan", ids=[c | (rng.randrange(1, 1 << 18) << 11)], model=False))
    return _spread(cases)


def _spread(cases, chunk=300):
    """Deal the long (history) cases over the generated Coq case files (runs of `chunk` consecutive
    modelled cases, evaluated in parallel) so that the files have similar sizes; deterministic."""
    heavy = [c for c in cases if c["kind"] in ("hist", "reent")]
    light = [c for c in cases if c["kind"] not in ("hist", "reent") and c.get("model", True)]
    rest = [c for c in cases if c["kind"] not in ("hist", "reent") and not c.get("model", True)]
    nb = max(1, -(-(len(heavy) + len(light)) // chunk))
    bins = [[] for _ in range(nb)]
    load = [0] * nb
    for h in sorted(heavy, key=lambda c: -len(c["ops"])):
        b = min(range(nb), key=lambda k: (load[k], k))
        bins[b].append(h)
        load[b] += len(h["ops"]) + 5
    out, li = [], 0
    for b in bins:
        room = max(0, chunk - len(b))
        out.extend(b)
        out.extend(light[li:li + room])
        li += room
    out.extend(light[li:])
    return out + rest


# ------------------------------------------------------------------ shrinking / neighbours
def shrink(c):
    if c["kind"] == "reent":
        for i in range(len(c["scripts"])):
            yield dict(c, scripts=c["scripts"][:i] + c["scripts"][i + 1:])
    if c["kind"] in ("hist", "reent"):
        ops = c["ops"]
        n = len(ops)
        k = n // 2
        while k >= 1:
            for i in range(0, n, k):
                cand = ops[:i] + ops[i + k:]
                if len(cand) < n:
                    yield dict(c, ops=cand)
            k //= 2
    elif c["kind"] == "scan":
        ids = c["ids"]
        n = len(ids)
        k = n // 2
        while k >= 1:
            for i in range(0, n, k):
                yield dict(c, ids=ids[:i] + ids[i + k:])
            k //= 2
    elif c["kind"] in ("send", "periodic"):
        if c["data"]:
            yield dict(c, data=c["data"][:-1])
    elif c["kind"] == "periodic_upd":
        ups = c["updates"]
        for i in range(len(ups)):
            if len(ups) > 1:
                yield dict(c, updates=ups[:i] + ups[i + 1:])
        for i in range(len(ups)):
            if ups[i]:
                yield dict(c, updates=ups[:i] + [ups[i][:-1]] + ups[i + 1:])
        if c["data"]:
            yield dict(c, data=c["data"][:-1])


def neighbours(c, rng):
    if c["kind"] == "hist":
        ops = c["ops"]
        ids = sorted({op[1] for op in ops if op[0] in ("sub", "unsub", "notify", "recv")} |
                     {op[3] for op in ops if op[0] == "add_sdo"} |
                     {0} | {b + op[1][1] for op in ops if op[0] == "add" for b in (0x80, 0x580, 0x600, 0x700)})
        probe = [["notify", i, [1, 2], 100000 + j] for j, i in enumerate(ids)]
        for cut in sorted({len(ops), len(ops) // 2, len(ops) // 4, 3 * len(ops) // 4}):
            yield dict(kind="hist", ops=ops[:cut] + probe)
    elif c["kind"] == "scan":
        for i in c["ids"][:20]:
            yield dict(kind="scan", ids=[i])
            yield dict(kind="scan", ids=[i, i ^ 0x800, i + 0x800, i])
    else:
        for d in (-1, 0, 1):
            yield dict(c, id=c["id"] + d)
            yield dict(c, id=0x7FF + d)
        if c["kind"] == "periodic":
            for m in (False, True):
                yield dict(kind="periodic_upd", modify=m, id=c["id"], data=c["data"], period=c["period"],
                           remote=c["remote"], updates=[[1, 2, 3], [1, 2, 3], []])
