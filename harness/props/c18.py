"""C18 - LSS fast scan finds the one unconfigured device's identity bit for bit; LSS request frames;
inquire / configure / store results and errors; selective switch.

A case is one session: a peer (the CiA 305 reference slave of harness/ref/lss_slave.py in a given initial
state, or a scripted peer for fault sequences) and a list of public LssMaster calls.  The observation is,
per call: the result (or exception class), every frame seen on the bus during the call (who sent it, COB-ID,
data), the peer's state afterwards and whether the call left the master's public settings (RESPONSE_TIMEOUT and
every other public class / instance attribute of LssMaster) as it found them.  Time is virtual (shims for
canopen.lss.queue and canopen.lss.time): silence costs nothing and "delay_ms" lets the peer answer later; two
"clock": "real" sessions use real threads and the real queue.  ["net", "connect" | "disconnect" | "exit" | "bus"]
steps connect / disconnect the same Network object (python-can virtual bus), or assign network.bus, inside a session.  Long fast-scan logs are compared with the model through a 61-bit
polynomial hash ("trace": "hash"); the oracle always works on the full log.
"""
import logging, struct
from vlib.obs import Err, guarded, gz, gzlist, gbool, glist, E_LSS
from ref.lss_slave import LssSlave, ScriptPeer

PROP = "C18"
ANCHORS = [('canopen.lss', 'LssMaster')]
MODEL_VO = ["theories/Model/Lss.vo"]
COQ_IMPORTS = "From CV Require Import Model.RefLssSlave Model.Lss."
COQ_RUN = "run_lss"
COQ_CASE_TYPE = "lss_case"
RULE = ("case = one session (peer, list of LssMaster calls); non-trivial = a session with a fast scan against a present "
        "slave, or a service call that gets an answer / an error answer / a wrong specifier / silence, or a selective "
        "switch; identities: all-zero, all-one, each of the 128 bits set alone and cleared alone, seeded random; node ids "
        "and bit-timing indexes 0..255; error codes 0..255; distinct by canonical JSON of the case")
EXHAUSTIVE = {"quick": False, "thorough": False}
EXPLANATION = ("the 2^128 identities are covered by the theorem, not by enumeration; the correspondence runs every "
               "single-bit identity, all node ids / bit-timing indexes / error codes 0..255 and seeded random sessions")
TRUSTED = ["modelled, not verified: queue.Queue blocking get with time-out (the harness replaces canopen.lss.queue by a "
           "virtual-time queue: replies are delivered inline or after a virtual delay, an empty queue advances the virtual "
           "clock by the time-out and raises Empty; RESPONSE_TIMEOUT is left as it is), time.sleep between frames (advances "
           "the virtual clock only), "
           "struct.pack/unpack_from formats '<BIBBB' '<I' '<H' '<B' '<BB' '<BI' (modelled in Gallina, tied by correspondence)",
           "harness/ref/lss_slave.py, the CiA 305 reference slave (twin of Model/RefLssSlave.v, tied by the per-call state "
           "comparison of the correspondence)"]
ASSUMPTIONS = ["synchronous bus: the slave's reaction to a request is in the queue before __send_command reads it",
               "the slave is the CiA 305 reference slave: fast scan is answered only in waiting state with node-id 255"]

MASTER, SLAVE = 0x7E5, 0x7E4
HASH_MASK = (1 << 61) - 1
SLAVE_FIELDS = ("mode", "node", "pos", "sel", "idn", "bt", "delay", "st_node", "st_bt", "store_err")
_full = {}


# ------------------------------------------------------------------ running the implementation
# Time is virtual: canopen.lss.queue and canopen.lss.time are replaced by shims (no source change).  A get() on an
# empty queue does not block; it advances the virtual clock of the bus by the time-out it was given (delivering the
# peer's delayed replies that fall due on the way) and raises queue.Empty.  So the harness never has to touch
# RESPONSE_TIMEOUT (the class default stays unless the case sets "timeout_ms"), silence costs no real time, and the
# time-out a call really used is observable.
import collections, queue as _realqueue, time as _realtime


class _VQueue:
    def __init__(self, maxsize=0): self.items = collections.deque()
    def empty(self): return not self.items
    def qsize(self): return len(self.items)
    def put(self, x, block=True, timeout=None): self.items.append(x)
    def put_nowait(self, x): self.items.append(x)
    def get_nowait(self): return self.get(False)
    def get(self, block=True, timeout=None):
        if self.items:
            return self.items.popleft()
        if not block:
            raise _realqueue.Empty
        return _Shim.net.wait(timeout, self)


class _VQueueModule:
    Queue = _VQueue
    Empty = _realqueue.Empty
    Full = _realqueue.Full


class _Shim:
    """replacement for the `time` module inside canopen.lss: sleeping only advances the virtual clock"""
    net = None
    @staticmethod
    def sleep(t):
        if _Shim.net is not None and not _Shim.net.real:
            _Shim.net.advance(int(round(t * 1000)))
    time = staticmethod(_realtime.time)
    monotonic = staticmethod(_realtime.monotonic)
    perf_counter = staticmethod(_realtime.perf_counter)


def _make_net(peer, delays=None, real=False, debug=False):
    import canopen, canopen.lss, threading
    if not debug:                                     # "debug_log" cases run with the canopen logger at DEBUG (vlib/core.py)
        logging.disable(logging.CRITICAL)
    canopen.lss.time = _Shim
    canopen.lss.queue = _realqueue if real else _VQueueModule
    delays = {int(k): int(v) for k, v in (delays or {}).items()}

    class Net(canopen.Network):
        def __init__(self):
            super().__init__()
            self.log = []           # every frame on the bus: bytes([who, id_hi, id_lo]) + data
            self.now = 0            # virtual clock, ms
            self.pending = []       # (due, seq, cob-id, data): replies the peer sends later
            self.sched = []         # (index in log of the request, delay ms, cob-id, data)
            self.waits = []         # time-outs (ms) of the waits that ended in silence
            self.real = real
            self.t_req = self.t_reply = None

        def put(self, who, can_id, data, remote=False):
            cid = int(can_id) | (0x8000 if remote else 0)
            self.log.append(bytes([who, (cid >> 8) & 0xFF, cid & 0xFF]) + bytes(data))

        def deliver(self, cid, rd):
            self.put(1, cid, rd)
            self.notify(cid, bytearray(rd), 0.0)

        def send_message(self, can_id, data, remote=False):
            d = bytes(data)
            self.put(0, can_id, d, remote)
            at = len(self.log) - 1
            delay = delays.get(d[0], 0) if d else 0
            for cid, rd in peer.on_frame(can_id, d):
                if not delay:
                    self.deliver(cid, rd)
                    continue
                self.sched.append((at, delay, cid, bytes(rd)))
                if real:
                    self.t_req = _realtime.monotonic()
                    def late(cid=cid, rd=rd):
                        self.t_reply = _realtime.monotonic()
                        self.deliver(cid, rd)
                    t = threading.Timer(delay / 1000.0, late)
                    t.daemon = True
                    t.start()
                else:
                    self.pending.append((self.now + delay, len(self.sched), cid, bytes(rd)))

        def advance(self, ms, q=None):
            """virtual time passes; returns True as soon as q has an item"""
            deadline = self.now + ms
            while True:
                due = sorted(x for x in self.pending if x[0] <= deadline)
                if not due:
                    break
                self.pending.remove(due[0])
                self.now = due[0][0]
                self.deliver(due[0][2], due[0][3])
                if q is not None and q.items:
                    return True
            self.now = deadline
            return False

        def wait(self, timeout, q):
            if timeout is None:                       # would block for ever
                if self.advance(10 ** 9, q):
                    return q.items.popleft()
                raise _realqueue.Empty
            ms = int(round(timeout * 1000))
            if self.advance(max(ms, 0), q):
                return q.items.popleft()
            self.waits.append(ms)
            raise _realqueue.Empty

    net = Net()
    _Shim.net = net
    if not real and not isinstance(net.lss.responses, _VQueue):
        net.lss.RESPONSE_TIMEOUT = 0                  # shim not effective (queue imported differently): old set-up
    return net


def settings(lss):
    """the master's public configuration: every public non-callable class / instance attribute except its wiring"""
    skip = ("network", "responses")
    def canon(v):
        return v if isinstance(v, (bool, int, float, str)) or v is None else repr(v)
    out = {}
    for n in dir(lss):
        if n.startswith("_") or n in skip:
            continue
        try:
            v = getattr(lss, n)
        except Exception as e:
            v = f"<{type(e).__name__}>"
        if callable(v):
            continue
        out[n] = canon(v)
        cv = type(lss).__dict__.get(n, "<none>")
        if not callable(cv):
            out["class." + n] = canon(cv)
    return out


def make_peer(p):
    if p["type"] == "slave":
        return LssSlave(p["ident"], **{k: p[k] for k in SLAVE_FIELDS if k in p})
    return ScriptPeer([[(c, bytes(d)) for c, d in step] for step in p["script"]])


def _call(net, op):
    lss = net.lss
    k = op[0]
    if k == "global": return lss.send_switch_state_global(op[1])
    if k == "selective": return lss.send_switch_state_selective(*op[1:5])
    if k == "inq_node": return lss.inquire_node_id()
    if k == "inq_addr": return lss.inquire_lss_address(op[1])
    if k == "cfg_node": return lss.configure_node_id(op[1])
    if k == "cfg_bit": return lss.configure_bit_timing(op[1])
    if k == "activate": return lss.activate_bit_timing(op[1])
    if k == "store": return lss.store_configuration()
    if k == "ident_remote": return lss.send_identify_remote_slave(*op[1:7])
    if k == "ident_noncfg": return lss.send_identify_non_configured_remote_slave()
    if k == "fast_scan":
        ok, ids = lss.fast_scan()
        return [ok, None if ids is None else list(ids)]
    if k == "net":
        # the application (dis)connects the SAME Network object: a python-can virtual bus on a private channel; the
        # frames of the session still travel through send_message / notify of this object
        if op[1] == "connect":
            net.NOTIFIER_CYCLE = 0.005
            net.connect(interface="virtual", channel=f"c18-{id(net)}")
        elif op[1] == "disconnect":
            net.disconnect()
        elif op[1] == "exit":
            net.__exit__(None, None, None)
        elif op[1] == "bus":                          # the application supplies the bus object itself
            import can
            net.bus = can.Bus(interface="virtual", channel=f"c18-{id(net)}")
        else:
            raise ValueError(op)
        return None
    if k == "inject":
        net.put(1, op[1], bytes(op[2]))
        net.notify(op[1], bytearray(op[2]), 0.0)
        return None
    raise ValueError(k)


def canon_result(r):
    if r is None or isinstance(r, (bool, int, Err)): return r
    if isinstance(r, (list, tuple)): return [canon_result(x) for x in r]
    return Err(9, f"unexpected result {r!r}")


def run_session(c):
    """full observation: per call [result, [bus entries as bytes], peer state, settings unchanged?] and, for the oracle,
    per call the settings before / after, the documented time-out at the start, scheduled (delayed) replies, waits"""
    peer = make_peer(c["peer"])
    real = c.get("clock") == "real"
    net = _make_net(peer, c.get("delay_ms"), real, bool(c.get("debug_log")))
    if "timeout_ms" in c:
        net.lss.RESPONSE_TIMEOUT = c["timeout_ms"] / 1000.0
    out, extra = [], []
    tmo = settings(net.lss).get("RESPONSE_TIMEOUT")     # the time-out the session starts with is the documented one
    tmo_ms = int(round(tmo * 1000)) if isinstance(tmo, (int, float)) and not isinstance(tmo, bool) else None
    for op in c["ops"]:
        start = len(net.log)
        nsched, nwait = len(net.sched), len(net.waits)
        before = settings(net.lss)
        net.t_req = net.t_reply = None
        r = guarded(lambda: canon_result(_call(net, op)))
        if real and net.t_req is not None:
            dl = _realtime.monotonic() + 3.0
            while net.t_reply is None and _realtime.monotonic() < dl:      # let the late reply arrive
                _realtime.sleep(0.01)
        after = settings(net.lss)
        in_time = None
        if real and net.t_req is not None and net.t_reply is not None and tmo_ms is not None:
            in_time = (net.t_reply - net.t_req) * 1000.0 < 0.8 * tmo_ms
        row = [r, list(net.log[start:]), peer.state(), before == after]
        if real:
            row.append(in_time)
        out.append(row)
        extra.append(dict(before=before, after=after, timeout_ms=tmo_ms, in_time=in_time,
                          sched=[(at - start, d, cid, data) for at, d, cid, data in net.sched[nsched:]],
                          waits=list(net.waits[nwait:])))
    if getattr(net, "bus", None) is not None:         # harness clean-up, not part of the history
        try:
            net.disconnect()
        except Exception:
            pass
    return out, extra


def bus_hash(entries):
    h = 7
    for e in entries:
        h = (h * 257 + len(e) + 1) & HASH_MASK
        for x in e:
            h = (h * 257 + x + 1) & HASH_MASK
    return h


def _key(c):
    import json
    return json.dumps(c, sort_keys=True)


def _compared(c, full):
    if c.get("trace") == "hash":
        return [[r, bus_hash(b), st, ok] for r, b, st, ok in full]
    return full


def impl(c):
    full, extra = run_session(c)
    _full.clear()
    _full[_key(c)] = (full, extra)
    return _compared(c, full)


# ------------------------------------------------------------------ oracle (CiA 305, independent of model and library)
def _u32ok(*xs): return all(isinstance(x, int) and 0 <= x < 1 << 32 for x in xs)
def _byteok(x): return isinstance(x, int) and 0 <= x < 256


def _frame(cs, *rest):
    b = bytes([cs]) + b"".join(rest)
    return b + bytes(8 - len(b))


def expected_requests(op):
    """The frames CiA 305 prescribes for the call, or None when the arguments are outside the protocol's ranges."""
    k = op[0]
    le32 = lambda x: x.to_bytes(4, "little")
    if k == "global": return [_frame(0x04, bytes([op[1]]))] if _byteok(op[1]) else None
    if k == "selective":
        return [_frame(0x40 + i, le32(op[1 + i])) for i in range(4)] if _u32ok(*op[1:5]) else None
    if k == "inq_node": return [_frame(0x5E)]
    if k == "inq_addr": return [_frame(op[1])] if op[1] in (0x5A, 0x5B, 0x5C, 0x5D) else None
    if k == "cfg_node": return [_frame(0x11, bytes([op[1]]))] if _byteok(op[1]) else None
    if k == "cfg_bit": return [_frame(0x13, bytes([0, op[1]]))] if _byteok(op[1]) else None
    if k == "activate": return [_frame(0x15, op[1].to_bytes(2, "little"))] if 0 <= op[1] < 65536 else None
    if k == "store": return [_frame(0x17)]
    if k == "ident_remote":
        return [_frame(0x46 + i, le32(op[1 + i])) for i in range(6)] if _u32ok(*op[1:7]) else None
    if k == "ident_noncfg": return [_frame(0x4C)]
    return None


def _answer(bus, ex=None, real=False):
    """the slave's answer to the (last) request of the call: first frame on 0x7E4 after the library's last frame;
    a reply the peer sends later counts iff it is sent inside the time-out the master had when the session began"""
    if ex is not None and ex["sched"]:
        mine = [(d, data) for at, d, cid, data in ex["sched"] if cid == SLAVE]
        if not mine or ex["timeout_ms"] is None:
            return "skip", True
        d, data = mine[0]
        if real:
            return (data, True) if ex["in_time"] else ("skip", True)
        if d < ex["timeout_ms"]:
            return data, True
        return (None, True) if d > ex["timeout_ms"] else ("skip", True)
    if real:
        return "skip", True
    last = max((i for i, e in enumerate(bus) if e[0] == 0), default=None)
    if last is None:
        return None, False
    for e in bus[last + 1:]:
        if e[0] == 1 and (e[1] << 8 | e[2]) == SLAVE:
            return bytes(e[3:]), True
    return None, True


def oracle(c, o):
    cached = _full.get(_key(c))
    if cached is None:
        cached = run_session(c)
    full, extra = cached
    real = c.get("clock") == "real"
    if not real and _compared(c, full) != o:
        return ("nondeterministic", "two runs of the same session gave different observations")
    peer = c["peer"]
    is_slave = peer["type"] == "slave"
    state = None
    if is_slave:
        d = dict(mode=0, node=255, pos=0, sel=0, idn=0, bt=0, delay=0, st_node=0, st_bt=0)
        d.update({k: peer[k] for k in d if k in peer})
        state = [d[k] for k in ("mode", "node", "pos", "sel", "idn", "bt", "delay", "st_node", "st_bt")]
    never_replies = (not is_slave) and all(len(step) == 0 for step in peer["script"])
    for i, (op, row, ex) in enumerate(zip(c["ops"], full, extra)):
        res, bus, after = row[0], row[1], row[2]
        k = op[0]
        where = f"call {i} {op!r}"
        sent = [e for e in bus if e[0] == 0]
        # every LSS request is a full 8-byte data frame on the master's COB-ID
        for e in sent:
            cid = e[1] << 8 | e[2]
            if cid != MASTER or len(e) - 3 != 8:
                return ("request_frame_malformed", f"{where}: frame id 0x{cid:X} data {e[3:].hex()} (must be 8 bytes on 0x7E5)")
        exp = expected_requests(op)
        if exp is not None and [bytes(e[3:]) for e in sent] != exp:
            return ("request_frame_wrong", f"{where}: sent {[e[3:].hex() for e in sent]}, CiA 305 prescribes {[x.hex() for x in exp]}")
        if k == "fast_scan":
            for j, e in enumerate(sent):
                d = e[3:]
                if d[0] != 0x51 or not (d[5] == 0x80 or d[5] < 32) or d[6] > 3 or d[7] > 3:
                    return ("fast_scan_frame_malformed", f"{where}: frame {j} {d.hex()}")
            if sent and bytes(sent[0][3:]) != bytes([0x51, 0, 0, 0, 0, 0x80, 0, 0]):
                return ("fast_scan_frame_malformed", f"{where}: first frame {sent[0][3:].hex()}")
            if is_slave:
                if state[0] == 0 and state[1] == 255:
                    if res != [True, list(peer["ident"])]:
                        return ("fast_scan_wrong_identity", f"{where}: slave identity {peer['ident']}, fast_scan returned {res!r}")
                    if after[0] != 1:
                        return ("fast_scan_slave_not_configuration", f"{where}: slave state after the scan is {after[0]}")
                elif res != [False, None]:
                    return ("fast_scan_phantom", f"{where}: no unconfigured waiting slave, fast_scan returned {res!r}")
            elif never_replies and res != [False, None]:
                return ("fast_scan_phantom", f"{where}: no slave present, fast_scan returned {res!r}")
        elif k in ("cfg_node", "cfg_bit", "store", "inq_node", "inq_addr") and exp is not None:
            ans, was_sent = _answer(bus, ex, real)
            cs = exp[0][0]
            want = "skip"
            if ans == "skip":
                pass
            elif ans is None:
                want = Err(E_LSS)
            elif k in ("cfg_node", "cfg_bit", "store") and len(ans) >= 2:
                want = Err(E_LSS) if (ans[0] != cs or ans[1] != 0) else None
            elif k == "inq_node" and len(ans) >= 2:
                want = Err(E_LSS) if ans[0] != cs else ans[1]
            elif k == "inq_addr" and len(ans) >= 5:
                want = Err(E_LSS) if ans[0] != cs else int.from_bytes(ans[1:5], "little")
            if want != "skip" and (res != want or type(res) is not type(want)):
                late = [d for _, d, _, _ in ex["sched"]]
                note = f" ({late[0]} ms after the request, RESPONSE_TIMEOUT was {ex['timeout_ms']} ms)" if late else ""
                return ("answer_within_timeout_lost" if late and isinstance(res, Err) and not isinstance(want, Err)
                        else "service_result_wrong",
                        f"{where}: slave answered {ans.hex() if ans is not None else None}{note}, "
                        f"call gave {res!r}, expected {want!r}")
        elif k == "selective" and exp is not None:
            ans, _ = _answer(bus, ex, real)
            if ans == "skip":
                ans = None
            if is_slave and state[0] == 0 and list(op[1:5]) == list(peer["ident"]):
                if res is not True or after[0] != 1:
                    return ("selective_not_confirmed", f"{where}: result {res!r}, slave state {after[0]}")
            if ans is not None and len(ans) >= 1 and ans[0] == 0x44 and res is not True:
                return ("selective_not_confirmed", f"{where}: slave confirmed with {ans.hex()}, result {res!r}")
        # the call must leave the master's public configuration as it found it
        if ex["before"] != ex["after"]:
            diff = {n: (ex["before"].get(n, "<absent>"), ex["after"].get(n, "<absent>"))
                    for n in sorted(set(ex["before"]) | set(ex["after"])) if ex["before"].get(n, "<absent>") != ex["after"].get(n, "<absent>")}
            return ("master_settings_changed", f"{where}: " + ", ".join(f"{n}: {a!r} -> {b!r}" for n, (a, b) in diff.items()))
        if is_slave:
            state = after
    return None


# ------------------------------------------------------------------ Gallina printing
def _gop(op):
    k = op[0]
    if k == "global": return f"OGlobal {gz(op[1])}"
    if k == "selective": return "OSelective " + " ".join(gz(x) for x in op[1:5])
    if k == "inq_node": return "OInqNode"
    if k == "inq_addr": return f"OInqAddr {gz(op[1])}"
    if k == "cfg_node": return f"OCfgNode {gz(op[1])}"
    if k == "cfg_bit": return f"OCfgBit {gz(op[1])}"
    if k == "activate": return f"OActivate {gz(op[1])}"
    if k == "store": return "OStore"
    if k == "ident_remote": return "OIdentRemote " + " ".join(gz(x) for x in op[1:7])
    if k == "ident_noncfg": return "OIdentNonCfg"
    if k == "fast_scan": return "OFastScan"
    if k == "inject": return f"OInject {gz(op[1])} {gzlist(op[2])}"
    if k == "net": return "ONet"
    raise ValueError(k)


def coq_case(c):
    p = c["peer"]
    if p["type"] == "slave":
        d = dict(mode=0, node=255, pos=0, sel=0, idn=0, bt=0, delay=0, st_node=0, st_bt=0, store_err=0)
        d.update({k: p[k] for k in d if k in p})
        peer = "(PSlave (mkSlave " + gzlist(p["ident"]) + " " + " ".join(gz(d[k]) for k in SLAVE_FIELDS) + "))"
    else:
        peer = "(PScript " + glist([glist([f"({gz(cid)}, {gzlist(data)})" for cid, data in step]) for step in p["script"]]) + ")"
    return f"LssCase {gbool(c.get('trace') == 'hash')} {peer} {glist([_gop(o) for o in c['ops']])}"


def nontrivial(c):
    kinds = {o[0] for o in c["ops"]}
    if c["peer"]["type"] == "slave":
        return bool(kinds & {"fast_scan", "selective", "cfg_node", "cfg_bit", "store", "inq_node", "inq_addr"})
    return bool(kinds & {"cfg_node", "cfg_bit", "store", "inq_node", "inq_addr", "selective", "fast_scan"})


# ------------------------------------------------------------------ generators
def slave(ident, **kw):
    d = dict(type="slave", ident=list(ident))
    d.update(kw)
    return d


def script(steps):
    return dict(type="script", script=[[[cid, list(data)] for cid, data in step] for step in steps])


def rep(cs, *rest, cid=SLAVE):
    b = bytes([cs]) + bytes(rest)
    return (cid, b + bytes(max(0, 8 - len(b))))


def hashed(flag):
    return {"trace": "hash"} if flag else {}


def boundary_idents():
    out = [[0, 0, 0, 0], [0xFFFFFFFF] * 4]
    for p in range(4):
        for b in range(32):
            out.append([(1 << b) if q == p else 0 for q in range(4)])
            out.append([0xFFFFFFFF ^ (1 << b) if q == p else 0xFFFFFFFF for q in range(4)])
    return out


def rand_ident(rng):
    def part():
        t = rng.randrange(6)
        if t == 0: return rng.choice((0, 1, 0xFFFFFFFF, 0x80000000, 0x7FFFFFFF, 0xFFFFFFFE))
        if t == 1: return rng.getrandbits(rng.randrange(1, 33))
        return rng.getrandbits(32)
    return [part() for _ in range(4)]


def rand_op(rng, ident):
    t = rng.randrange(16)
    if t == 0: return ["global", rng.choice((0, 1, 0, 1, 2, 255))]
    if t == 1:
        ids = list(ident)
        if rng.random() < 0.3:
            i = rng.randrange(4)
            ids[i] ^= 1 << rng.randrange(32)
        return ["selective"] + ids
    if t == 2: return ["inq_node"]
    if t == 3: return ["inq_addr", rng.choice((0x5A, 0x5B, 0x5C, 0x5D))]
    if t == 4: return ["cfg_node", rng.choice((rng.randrange(256), rng.randrange(1, 128), 255, 0, 127, 128))]
    if t == 5: return ["cfg_bit", rng.choice((rng.randrange(256), rng.randrange(0, 9), 8, 9))]
    if t == 6: return ["activate", rng.choice((rng.randrange(65536), 0, 65535, 256, 0x1234))]
    if t == 7: return ["store"]
    if t == 8:
        v, p, r, s = ident
        lo = lambda x: rng.choice((x, 0, max(0, x - 1), min(0xFFFFFFFF, x + 1), rng.randrange(0, x + 1)))
        hi = lambda x: rng.choice((x, 0xFFFFFFFF, max(0, x - 1), min(0xFFFFFFFF, x + 1), rng.randrange(x, 1 << 32)))
        return ["ident_remote", rng.choice((v, v, v, v ^ 1)), rng.choice((p, p, p, p ^ 0x100)), lo(r), hi(r), lo(s), hi(s)]
    if t == 9: return ["ident_noncfg"]
    if t in (10, 11): return ["fast_scan"]
    if t == 12: return ["inject", SLAVE, list(rep(rng.choice((0x4F, 0x50, 0x11, 0x5E, 0x44, 0x17)), rng.randrange(256))[1])]
    if t == 13: return ["inject", rng.choice((0x7E5, 0x000, 0x701, 0x5FF)), [rng.randrange(256) for _ in range(rng.randrange(0, 9))]]
    if t == 14: return ["global", 1]
    return ["global", 0]


def gen_cases(rng, tier):
    cases = []
    n_rand = {"quick": 60, "thorough": 1500, "search": 300}[tier]
    n_sess = {"quick": 150, "thorough": 2500, "search": 600}[tier]
    # ---- fast scan: boundary identities (full log for a few, hash for the rest), random identities
    bnd = boundary_idents()
    full_idx = {0, 1, 2, 3, 128, 257}
    for i, ident in enumerate(bnd):
        c = dict(kind="fast_scan", peer=slave(ident, pos=rng.randrange(4)), ops=[["fast_scan"]])
        if i not in full_idx:
            c["trace"] = "hash"
        cases.append(c)
    for j in range(n_rand):
        ident = rand_ident(rng)
        ops = [["fast_scan"]]
        if rng.random() < 0.5:
            ops += [["inq_addr", 0x5A + rng.randrange(4)], ["inq_node"]]
        if rng.random() < 0.3:
            ops += [["cfg_node", rng.randrange(1, 128)], ["store"], ["global", 0], ["fast_scan"]]
        c = dict(kind="fast_scan", peer=slave(ident, pos=rng.randrange(4), sel=rng.randrange(4)), ops=ops)
        if j >= 2:
            c["trace"] = "hash"
        cases.append(c)
    # no slave / slave that does not take part
    cases.append(dict(kind="fast_scan_none", peer=script([]), ops=[["fast_scan"], ["fast_scan"]]))
    cases.append(dict(kind="fast_scan_none", peer=slave([1, 2, 3, 4], node=5), ops=[["fast_scan"]]))
    cases.append(dict(kind="fast_scan_none", peer=slave([1, 2, 3, 4], mode=1), ops=[["fast_scan"], ["global", 0], ["fast_scan"]]))
    # scripted fast-scan peers: wrong specifier / short / stale replies (correspondence only)
    for _ in range({"quick": 20, "thorough": 200, "search": 20}[tier]):
        steps = []
        for _ in range(rng.randrange(1, 140)):
            t = rng.randrange(8)
            if t < 3: steps.append([rep(0x4F)])
            elif t < 6: steps.append([])
            elif t == 6: steps.append([rep(rng.choice((0x50, 0x44, 0x4F, 0x51)), rng.randrange(256))])
            else: steps.append([rep(0x4F), rep(0x4F)])
        cases.append(dict(kind="fast_scan_script", peer=script(steps), ops=[["fast_scan"]], trace="hash"))
    cases.append(dict(kind="fast_scan_script", peer=script([[rep(0x4F)], [(SLAVE, b"")], [(SLAVE, b"\x4f")]]), ops=[["fast_scan"]]))
    cases.append(dict(kind="fast_scan_script", peer=script([[rep(0x50)]]), ops=[["fast_scan"]]))
    cases.append(dict(kind="fast_scan_script", peer=script([[rep(0x4F, cid=0x7E5)]]), ops=[["fast_scan"]]))
    # ---- configure services: node ids and bit-timing indexes 0..255 against the slave
    ident = rand_ident(rng)
    for lo in range(0, 256, 16):
        ops = [["global", 1]]
        for n in range(lo, lo + 16):
            ops += [["cfg_node", n], ["inq_node"]]
        cases.append(dict(kind="configure", peer=slave(ident, mode=rng.randrange(2)), ops=ops + [["store"]], **hashed(lo >= 32)))
        ops = [["selective"] + ident]
        for n in range(lo, lo + 16):
            ops += [["cfg_bit", n]]
        cases.append(dict(kind="configure", peer=slave(ident), ops=ops + [["store"], ["activate", rng.randrange(65536)]], **hashed(lo >= 32)))
    for v in (-1, 256, 1 << 40):
        cases.append(dict(kind="configure", peer=slave(ident, mode=1), ops=[["cfg_node", v], ["cfg_bit", v], ["global", v], ["inq_addr", v]]))
    for v in (-1, 65536, 65535, 0, 0x0102):
        cases.append(dict(kind="configure", peer=slave(ident, mode=1), ops=[["activate", v]]))
    for e in (0, 1, 2, 255):
        cases.append(dict(kind="configure", peer=slave(ident, mode=1, store_err=e, node=7, bt=3), ops=[["store"], ["inq_node"]]))
    # services while the slave is in waiting state: silence
    cases.append(dict(kind="services", peer=slave(ident), ops=[["inq_node"], ["cfg_node", 3], ["cfg_bit", 2], ["store"], ["inq_addr", 0x5A]]))
    # inquire every part; every request specifier 0..255 for inquire_lss_address (non-awaited ones give TypeError)
    cases.append(dict(kind="services", peer=slave(ident, mode=1, node=0x22), ops=[["inq_addr", 0x5A + i] for i in range(4)] + [["inq_node"]]))
    for lo in range(0, 256, 32):
        cases.append(dict(kind="services", peer=slave(ident, mode=1), ops=[["inq_addr", cs] for cs in range(lo, lo + 32)], **hashed(lo != 64)))
    # ---- replies with every error code, wrong specifier, none, short, stale
    for call, cs in ((["cfg_node", 5], 0x11), (["cfg_bit", 3], 0x13), (["store"], 0x17)):
        for lo in range(0, 256, 32):
            cases.append(dict(kind="faults", peer=script([[rep(cs, e, rng.randrange(256))] for e in range(lo, lo + 32)]),
                              ops=[call] * 32, **hashed(lo >= 32)))
        wrong = [x for x in range(256) if x != cs]
        for lo in range(0, 255, 51):
            cases.append(dict(kind="faults", peer=script([[rep(x, 0)] for x in wrong[lo:lo + 51]]), ops=[call] * 51, **hashed(lo >= 51)))
        cases.append(dict(kind="faults", peer=script([[], [(SLAVE, b"")], [(SLAVE, bytes([cs]))], [(SLAVE, bytes([cs, 0]))],
                                                       [(0x7E5, bytes([cs, 0]) + bytes(6))], [rep(cs, 0), rep(cs, 1)],
                                                       [rep(cs, 1), rep(cs, 0)], [rep(cs, 0)]]),
                          ops=[call] * 9))
    for lo in range(0, 256, 32):
        cases.append(dict(kind="faults", peer=script([[rep(0x5E, n)] for n in range(lo, lo + 32)]), ops=[["inq_node"]] * 32, **hashed(lo >= 32)))
    wrong = [x for x in range(256) if x != 0x5E]
    for lo in range(0, 255, 51):
        cases.append(dict(kind="faults", peer=script([[rep(x, 9)] for x in wrong[lo:lo + 51]]), ops=[["inq_node"]] * 51, **hashed(lo >= 51)))
    cases.append(dict(kind="faults", peer=script([[], [(SLAVE, b"")], [(SLAVE, b"\x5e")], [(SLAVE, b"\x5e\x07")]]), ops=[["inq_node"]] * 5))
    for cs in (0x5A, 0x5B, 0x5C, 0x5D):
        vals = [0, 1, 0xFFFFFFFF, 0x80000000, 0x01020304] + [rng.getrandbits(32) for _ in range(4)]
        steps = [[rep(cs, *v.to_bytes(4, "little"), rng.randrange(256))] for v in vals]
        steps += [[rep(x, 1, 2, 3, 4)] for x in (cs ^ 1, cs + 4, 0, 0x5E, 0x4F)]
        steps += [[], [(SLAVE, b"")], [(SLAVE, bytes([cs, 1, 2, 3]))], [(SLAVE, bytes([cs, 1, 2, 3, 4]))]]
        cases.append(dict(kind="faults", peer=script(steps), ops=[["inq_addr", cs]] * (len(steps) + 1)))
    # selective switch: confirmations and non-confirmations from a scripted peer
    cases.append(dict(kind="faults", peer=script([[], [], [], [rep(0x44)], [], [], [], [rep(0x43)], [rep(0x44)], [], [], [],
                                                   [], [], [], [(SLAVE, b"")]]),
                      ops=[["selective", 1, 2, 3, 4]] * 4))
    for v in (-1, 1 << 32):
        cases.append(dict(kind="faults", peer=slave([1, 2, 3, 4]), ops=[["selective", 1, 2, v, 4], ["selective", 1, 2, 3, 4],
                                                                         ["ident_remote", 1, 2, 3, 3, v, 4]]))
    # late / unsolicited frames must not be taken for the answer (queue flush)
    for call in (["inq_node"], ["cfg_node", 9], ["store"], ["inq_addr", 0x5D], ["cfg_bit", 1]):
        cases.append(dict(kind="stale", peer=slave(ident, mode=1, node=0x33),
                          ops=[["ident_noncfg"], call, ["inject", SLAVE, list(rep(0x11, 1)[1])], call,
                               ["inject", SLAVE, list(rep(0x5E, 0x44)[1])], ["inject", SLAVE, list(rep(0x17, 2)[1])], call,
                               ["ident_remote"] + ident[:2] + [0, 0xFFFFFFFF, 0, 0xFFFFFFFF], call]))
    cases.append(dict(kind="stale", peer=slave(ident, node=255), ops=[["ident_noncfg"], ["global", 1], ["inq_node"], ["global", 0],
                                                                      ["inject", SLAVE, list(rep(0x4F)[1])], ["fast_scan"]], trace="hash"))
    cases.append(dict(kind="stale", peer=script([]), ops=[["inject", SLAVE, list(rep(0x4F)[1])], ["fast_scan"]]))
    cases.append(dict(kind="stale", peer=slave(ident), ops=[["inject", SLAVE, list(rep(0x44)[1])], ["selective"] + [x ^ 1 for x in ident],
                                                            ["inject", SLAVE, list(rep(0x43)[1])], ["selective"] + ident]))
    # ---- selective switch against the slave: boundary identities and near misses
    for idt in [[0, 0, 0, 0], [0xFFFFFFFF] * 4, [0x01020304, 0x05060708, 0x090A0B0C, 0x0D0E0F10]] + \
               [rand_ident(rng) for _ in range({"quick": 20, "thorough": 300, "search": 60}[tier])]:
        miss = list(idt)
        miss[rng.randrange(4)] ^= 1 << rng.randrange(32)
        swapped = [int.from_bytes(x.to_bytes(4, "little"), "big") for x in idt]
        cases.append(dict(kind="selective", peer=slave(idt, sel=rng.randrange(4), node=rng.choice((255, 5))),
                          ops=[["selective"] + miss, ["selective"] + idt, ["inq_addr", 0x5A + rng.randrange(4)], ["global", 0],
                               ["selective"] + swapped, ["selective"] + idt]))
    # ---- random sessions
    for _ in range(n_sess):
        idt = rand_ident(rng)
        p = slave(idt, mode=rng.choice((0, 0, 1)), node=rng.choice((255, 255, rng.randrange(1, 128))), pos=rng.randrange(4),
                  sel=rng.randrange(4), idn=rng.randrange(6), store_err=rng.choice((0, 0, 0, 1, 2)))
        ops = [rand_op(rng, idt) for _ in range(rng.randrange(1, 9))]
        c = dict(kind="session", peer=p, ops=ops)
        if any(o[0] == "fast_scan" for o in ops):
            c["trace"] = "hash"
        cases.append(c)
    # random scripted sessions (fault sequences)
    for _ in range(n_sess // 3):
        ops = [rand_op(rng, [1, 2, 3, 4]) for _ in range(rng.randrange(1, 7))]
        ops = [o for o in ops if o[0] != "fast_scan"] or [["inq_node"]]
        steps = []
        for _ in range(rng.randrange(0, 12)):
            t = rng.randrange(6)
            if t == 0: steps.append([])
            elif t == 1: steps.append([(SLAVE, bytes(rng.randrange(256) for _ in range(rng.randrange(0, 9))))])
            else: steps.append([rep(rng.choice((0x11, 0x13, 0x17, 0x5E, 0x5A, 0x5B, 0x5C, 0x5D, 0x44, 0x4F)), rng.choice((0, 0, 1, rng.randrange(256))),
                                    rng.randrange(256), rng.randrange(256), rng.randrange(256))] * rng.choice((1, 1, 1, 2)))
        cases.append(dict(kind="session_script", peer=script(steps), ops=ops))
    # ---- the same Network object connected, disconnected (or left through the context manager) and connected again
    #      before / between LSS services: results are those of a fresh network
    def reconnect(peer, blocks, **kw):
        ops = []
        for j, blk in enumerate(blocks):
            ops += [["net", "connect"]] + blk + [["net", rng.choice(("disconnect", "disconnect", "exit"))]]
        return dict(kind="reconnect", peer=peer, ops=ops[:-1] if rng.random() < 0.5 else ops, **kw)
    idr = [0x122, 0x5008, 0x80000000, 3]
    cases.append(reconnect(slave(idr), [[["inq_node"]], [["fast_scan"], ["inq_addr", 0x5C], ["cfg_node", 0x21], ["store"]]]))
    cases.append(reconnect(slave(idr), [[], [["fast_scan"]]], trace="hash"))
    cases.append(reconnect(slave(idr, mode=1, node=9), [[], [["inq_node"], ["cfg_bit", 3], ["store"], ["inq_addr", 0x5A]]]))
    cases.append(reconnect(slave(idr), [[["selective"] + idr], [["inq_node"]], [["global", 0], ["selective"] + idr, ["cfg_node", 5]]]))
    for _ in range({"quick": 24, "thorough": 200, "search": 60}[tier]):
        idt = rand_ident(rng)
        blocks = []
        for _ in range(rng.randrange(2, 4)):
            blocks.append([o for o in (rand_op(rng, idt) for _ in range(rng.randrange(0, 4))) if o[0] != "inject" or o[1] == SLAVE])
        p = slave(idt, mode=rng.choice((0, 0, 1)), node=rng.choice((255, 255, rng.randrange(1, 128))), store_err=rng.choice((0, 0, 1)))
        c = reconnect(p, blocks)
        if any(o[0] == "fast_scan" for o in c["ops"]):
            c["trace"] = "hash"
        cases.append(c)
    # ---- the same Network object re-used after disconnect() / context-manager exit WITHOUT connect() (custom backend:
    #      send_message overridden, frames fed through notify - the route of every session here), disconnect() on a
    #      network that was never connected, and an application that assigns network.bus itself
    def reuse(peer, ops, **kw):
        return dict(kind="reuse", peer=peer, ops=ops, **kw)
    scan_use = [["fast_scan"], ["inq_node"], ["inq_addr", 0x5D], ["cfg_node", 0x21], ["store"]]
    cases.append(reuse(slave(idr), [["net", "disconnect"]] + scan_use))
    cases.append(reuse(slave(idr), [["net", "exit"], ["fast_scan"]], trace="hash"))
    cases.append(reuse(slave(idr), [["inq_node"], ["net", "disconnect"]] + scan_use + [["net", "exit"], ["global", 0], ["inq_node"], ["global", 1], ["inq_node"]]))
    cases.append(reuse(slave(idr), [["net", "connect"], ["inq_node"], ["net", "disconnect"]] + scan_use))
    cases.append(reuse(slave(idr), [["net", "connect"], ["net", "exit"], ["selective"] + idr, ["cfg_bit", 2], ["store"]]))
    cases.append(reuse(slave(idr), [["net", "bus"], ["inq_node"], ["net", "disconnect"], ["net", "bus"]] + scan_use + [["net", "disconnect"]]))
    cases.append(reuse(slave(idr, mode=1, node=9), [["net", "bus"], ["net", "connect"], ["inq_node"], ["net", "disconnect"], ["inq_node"], ["cfg_node", 3], ["store"]]))
    cases.append(reuse(slave(idr, mode=1, node=9), [["net", "disconnect"], ["net", "disconnect"], ["inq_node"], ["inq_addr", 0x5A]]))
    for _ in range({"quick": 30, "thorough": 250, "search": 80}[tier]):
        idt = rand_ident(rng)
        ops, connected = [], False          # connected = a notifier is running (connect() twice would leak the first)
        for _ in range(rng.randrange(2, 5)):
            t = rng.randrange(6)
            if t == 0 and not connected:
                ops.append(["net", "connect"]); connected = True
            elif t == 1 and not connected:
                ops.append(["net", "bus"])
            elif t in (2, 3):
                ops.append(["net", rng.choice(("disconnect", "exit"))]); connected = False
            ops += [o for o in (rand_op(rng, idt) for _ in range(rng.randrange(1, 4))) if o[0] != "inject" or o[1] == SLAVE]
        if not any(o[0] == "net" and o[1] in ("disconnect", "exit") for o in ops):
            ops.insert(rng.randrange(len(ops)), ["net", "disconnect"])
        p = slave(idt, mode=rng.choice((0, 0, 1)), node=rng.choice((255, 255, rng.randrange(1, 128))), store_err=rng.choice((0, 0, 1)))
        c = reuse(p, ops)
        if any(o[0] == "fast_scan" for o in ops):
            c["trace"] = "hash"
        cases.append(c)
    # ---- the harness' own RESPONSE_TIMEOUT on some modelled sessions (time is virtual, so any value is free)
    for c in cases:
        if c["kind"] in ("session", "selective", "fast_scan") and rng.random() < 0.3:
            c["timeout_ms"] = rng.choice((50, 250, 2000))
    # ---- replies that take time (virtual clock, oracle only): an answer sent inside the time-out the master had
    #      when the call began must be returned - also after a fast scan with unanswered probes
    def delayed(peer, ops, delay, **kw):
        return dict(kind="delayed", peer=peer, ops=ops, delay_ms=delay, model=False, **kw)
    idt = [2, 0, 0, 1]
    cases.append(delayed(slave(idt), [["fast_scan"], ["cfg_node", 0x20], ["inq_node"], ["store"]], {"23": 250}))
    cases.append(delayed(slave(idt, mode=1), [["fast_scan"], ["store"], ["inq_node"]], {"23": 250}))
    cases.append(delayed(slave(idt), [["global", 1], ["store"], ["inq_node"]], {"23": 250}))
    cases.append(delayed(slave(idt, mode=1, node=9), [["store"], ["inq_node"]], {"23": 700}))
    calls = {0x11: ["cfg_node", 0x21], 0x13: ["cfg_bit", 2], 0x17: ["store"], 0x5E: ["inq_node"], 0x5A: ["inq_addr", 0x5A],
             0x5D: ["inq_addr", 0x5D]}
    for _ in range({"quick": 40, "thorough": 400, "search": 80}[tier]):
        tmo = rng.choice((None, None, 50, 300, 2000))
        T = tmo or 500
        cs = rng.choice(sorted(calls))
        d = rng.choice((max(1, T // 10), T // 2, T - 1, T + 1, 2 * T))
        ident = rand_ident(rng)
        pre = rng.choice(([["global", 1]], [["fast_scan"]], [["fast_scan"], ["global", 0], ["fast_scan"], ["global", 1]],
                          [["selective"] + ident]))
        c = delayed(slave(ident), pre + [calls[cs]], {str(cs): d})
        if tmo is not None:
            c["timeout_ms"] = tmo
        cases.append(c)
    # ---- two real-clock sessions (real queue.Queue, real threads; oracle only): the slave acknowledges 0.2 s after the
    #      request, well inside the untouched RESPONSE_TIMEOUT, once after a successful and once after a failed fast scan
    if tier in ("quick", "thorough", "search"):
        cases.append(dict(kind="realclock", clock="real", model=False, peer=slave(idt),
                          ops=[["fast_scan"], ["cfg_node", 0x20], ["store"]], delay_ms={"23": 200}))
        cases.append(dict(kind="realclock", clock="real", model=False, peer=slave(idt, mode=1, node=7),
                          ops=[["fast_scan"], ["inq_node"]], delay_ms={"94": 200}))
    rng.shuffle(cases)          # spread the long cases evenly over the Coq case files
    return cases


def shrink(c):
    if c.get("clock") == "real":
        return
    ops = c["ops"]
    for i in range(len(ops)):
        if len(ops) > 1 and ops[i][0] != "net":       # the connect / disconnect history stays well-formed
            yield dict(c, ops=ops[:i] + ops[i + 1:])
    p = c["peer"]
    if p["type"] == "slave":
        for i in range(4):
            if p["ident"][i]:
                for nv in (0, p["ident"][i] & (p["ident"][i] - 1)):
                    ids = list(p["ident"]); ids[i] = nv
                    ops2 = [(["selective"] + ids if (o[0] == "selective" and list(o[1:5]) == list(p["ident"])) else o) for o in ops]
                    yield dict(c, peer=dict(p, ident=ids), ops=ops2)
    else:
        s = p["script"]
        for i in range(len(s)):
            if s[i]:
                yield dict(c, peer=dict(p, script=s[:i] + [[]] + s[i + 1:]))


def neighbours(c, rng):
    p = c["peer"]
    if p["type"] == "slave":
        for _ in range(20):
            idt = list(p["ident"])
            idt[rng.randrange(4)] ^= 1 << rng.randrange(32)
            yield dict(c, peer=dict(p, ident=idt))
