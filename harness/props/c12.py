"""C12 - SDO block download delivers exactly the payload or fails visibly.

Closed system on both sides: (library BlockDownloadStream + Python reference server of harness/ref/block_server.py)
vs (Model/BlockDl.v + Model/RefBlockServer.v), same fault list, complete frame traces compared.
The oracle is the reference server's own verdict plus an arithmetic check of every client frame; it does
not use the model or the library.
"""
import logging
from vlib.obs import Err, Abort, guarded, canon_exc, gz, gzlist, gbool, gopt, glist, E_SDOCOMM
from ref import block_server as bs

PROP = "C12"
ANCHORS = [('canopen.sdo.client', 'BlockDownloadStream'), ('canopen.sdo.client', 'SdoClient.request_response'), ('canopen.sdo.client', 'SdoClient.read_response'), ('canopen.sdo.base', 'CrcXmodem')]
MODEL_VO = ["theories/Model/BlockDl.vo"]
COQ_IMPORTS = "From CV Require Import Model.Crc Model.RefBlockServer Model.BlockDl."
COQ_RUN = "run_blockdl"
COQ_CASE_TYPE = "dl_case"
RULE = ("cases = one block download (payload, declared size, client/server CRC capability, block-size list of the server, "
        "fault list) run as a closed system, or a tie case for crc_hqx / payload generator / trace hash; non-trivial = "
        "a transfer of at least two segments or with at least one fault; distinct by canonical JSON of the case; "
        "lengths 1..60 and 7k-1,7k,7k+1, 889k-1..889k+1 (quick) resp. every length 1..1000 and boundaries to 10^4 "
        "(thorough); every single lost segment position for sampled (quick) resp. all (thorough) configurations; "
        "every server frame lost / aborted / corrupted / duplicated (C07 part for block download)")
EXHAUSTIVE = {"thorough": False}
EXPLANATION = ("long transfers are compared through a 61-bit hash of the trace (model + implementation compute it "
               "independently); the thorough tier sweeps lengths 1..1000 through implementation + oracle and a subset "
               "through the model")
TRUSTED = ["modelled, not verified: binascii.crc_hqx (modelled by Model/Crc.v crc_from, tied by CCrc cases on random data); "
           "io.BufferedWriter chunking (modelled by write_all: every raw write() receives the whole unconsumed rest), tied by "
           "running each case through the buffered stream (default) or the raw stream with a hand-written loop; "
           "queue.Queue time-out = empty list",
           "reference block download server harness/ref/block_server.py (written from CiA 301), tied to its Gallina twin by "
           "the closed-system traces"]
ASSUMPTIONS = ["the application makes one write(payload) call (or drives the raw stream with a write-all loop) and declares size=len(payload)",
               "a lost last segment of a sub-block is noticed by the server's own time-out before the client's (modelled by "
               "letting the lost frame end the sub-block)",
               "wall-clock: real time-outs are replaced by 'queue empty'"]

INDEX = 0x2000
TIMEOUT = 0.002
_od = None


def _setup():
    global _od
    if _od is None:
        logging.disable(logging.CRITICAL)
        from canopen import objectdictionary as odm
        _od = odm.ObjectDictionary()
        v = odm.ODVariable("dom", INDEX)
        v.data_type = odm.DOMAIN
        _od.add_object(v)
    return _od


class Obs(list):
    """list observation with details for the oracle attached (not compared, not stored)"""
    detail = None


def payload(c):
    return bs.payload_of(c["zeros"], c["seed"], c["n"], c["lit"])


def dview(full, b):
    if b is None:
        return None
    return bytes(b) if full else [len(b), bs.hash_frame(0, b)]


def lview(full, log):
    return [bytes(x) for x in log] if full else [len(log), bs.hash_log(log)]


def run_dl(c):
    od = _setup()
    data = payload(c)
    srv = bs.RefBlockDlServer(c["blks"], c["crc_server"])
    peer = bs.Faulty(srv, c["faults"])
    net = bs.make_net(peer)
    node = net.add_node(1, od)
    node.sdo.RESPONSE_TIMEOUT = TIMEOUT
    res = None
    try:
        if c["kind"] == "dlbuf":
            # the io.BufferedWriter that open() returns (default or small buffer), payload written in several write() calls
            kw = {} if c["buffering"] is None else {"buffering": c["buffering"]}
            with node.sdo.open(c["index"], c["sub"], "wb", size=c["size"], block_transfer=True,
                               request_crc_support=c["crc_client"], **kw) as f:
                pos, i = 0, 0
                src = bytearray(data) if c.get("src") == "bytearray" else data
                while pos < len(data):
                    k = c["chunks"][i % len(c["chunks"])]
                    f.write(src[pos:pos + k])
                    pos += k
                    i += 1
        elif c.get("via", "buffered") == "raw":
            with node.sdo.open(c["index"], c["sub"], "wb", buffering=0, size=c["size"], block_transfer=True,
                               request_crc_support=c["crc_client"]) as f:
                rest = data
                while rest:
                    n = f.write(rest)
                    if n is None:
                        raise BlockingIOError("write returned None")
                    rest = rest[n:]
        else:
            with node.sdo.open(c["index"], c["sub"], "wb", size=c["size"], block_transfer=True,
                               request_crc_support=c["crc_client"]) as f:
                f.write(data)
    except Exception as e:  # noqa: BLE001
        res = canon_exc(e)
    o = Obs([res, dview(c["full"], srv.store), srv.bad, lview(c["full"], net.log)])
    o.detail = dict(log=list(net.log), store=srv.store, srv=srv, peer=peer)
    return o


def impl(c):
    k = c["kind"]
    if k in ("dl", "dlbuf"):
        return run_dl(c)
    if k == "crc":
        import binascii
        from canopen.sdo.base import CrcXmodem
        def f():
            x = CrcXmodem()
            x._value = c["init"]
            # chunk-wise, as BlockDownloadStream.send does
            d = bytes(c["data"])
            for i in range(0, len(d), 7):
                x.process(d[i:i + 7])
            assert x.final() == binascii.crc_hqx(d, c["init"])
            return x.final()
        return guarded(f)
    if k == "gen":
        return bs.gen_bytes(c["n"], c["seed"])
    if k == "hash":
        return bs.hash_log([bytes(x) for x in c["log"]])
    raise ValueError(k)


# ------------------------------------------------------------------ oracle
def subblocks(nseg, blks):
    """[(first segment, last segment)] of an undisturbed transfer of nseg segments"""
    b = bs._Blks(blks)
    out, s = [], 1
    while s <= nseg:
        k = b.next()
        out.append((s, min(nseg, s + k - 1)))
        s += k
    return out


def expected_client_frames(c, data):
    """every frame a correct client sends in an undisturbed transfer (CiA 301), CRC field checked separately"""
    n = len(data)
    nseg = (n + 6) // 7
    cmd = 0xC0 | (4 if c["crc_client"] else 0) | 2
    frames = [bytes([cmd, c["index"] & 0xFF, c["index"] >> 8, c["sub"]]) + n.to_bytes(4, "little")]
    for first, last in subblocks(nseg, c["blks"]):
        for s in range(first, last + 1):
            chunk = data[7 * (s - 1):7 * s]
            frames.append(bytes([(s - first + 1) | (0x80 if s == nseg else 0)]) + chunk.ljust(7, b"\0"))
    unused = 7 * nseg - n
    frames.append(bytes([0xC1 | unused << 2]))
    return frames


def conformant_case(c):
    return (c["size"] == c["zeros"] + c["n"] + len(c["lit"]) and c["size"] >= 1 and c["blks"]
            and all(1 <= b <= 127 for b in c["blks"]))


def oracle(c, o):
    k = c["kind"]
    if k == "crc":
        exp = bs.crc16(bytes(c["data"]), c["init"])
        return None if o == exp else ("crc_hqx_differs", f"crc_hqx over {len(c['data'])} bytes from {c['init']:#x}: {o!r} != {exp:#x}")
    if k not in ("dl", "dlbuf") or not conformant_case(c):
        return None
    data = payload(c)
    res, store, bad, _ = o
    d = getattr(o, "detail", None)
    committed = dview(c["full"], data)
    ok = res is None
    faults = c["faults"]
    what = f"n={len(data)} blks={c['blks']} crc={int(c['crc_client'])}{int(c['crc_server'])} faults={faults}"
    if k == "dlbuf":
        what += f" buffering={c['buffering']} write chunks={c['chunks']}"
    # --- safety, any fault pattern: a normal return has committed exactly the payload
    if ok and store != committed:
        return ("dl_normal_return_wrong_commit", f"{what}: returned normally, server holds "
                f"{'nothing' if store is None else (len(d['store']) if d else store)} bytes != payload")
    nseg = (len(data) + 6) // 7
    if not faults:
        if not ok:
            return ("dl_undisturbed_failed", f"{what}: {res!r}")
        if bad:
            return ("dl_protocol_violation", f"{what}: reference server saw protocol violation code {bad}")
        if d is not None:
            sent = [x[1:] for x in d["log"] if x[0] == 0]
            exp = expected_client_frames(c, data)
            if len(sent) != len(exp):
                return ("dl_frame_count", f"{what}: client sent {len(sent)} frames, expected {len(exp)}")
            for i, (a, b) in enumerate(zip(sent, exp)):
                if i == len(exp) - 1:
                    if a[0] != b[0]:
                        return ("dl_end_frame_wrong", f"{what}: end request {a.hex()} has command {a[0]:#x}, expected {b[0]:#x} (unused bytes)")
                    if c["crc_client"] and c["crc_server"] and a[1] | a[2] << 8 != bs.crc16(data):
                        return ("dl_crc_wrong", f"{what}: end request carries CRC {a[1] | a[2] << 8:#x}, CRC-16 of payload is {bs.crc16(data):#x}")
                elif a != b:
                    sig = "dl_init_frame_wrong" if i == 0 else "dl_segment_wrong"
                    return (sig, f"{what}: client frame {i + 1} is {a.hex()}, expected {b.hex()}")
        return None
    # --- one lost segment in a sub-block other than the final one is repaired
    if len(faults) == 1 and faults[0][0] == "dropc" and 2 <= faults[0][1] <= nseg + 1:
        seg = faults[0][1] - 1
        sbs = subblocks(nseg, c["blks"])
        final = sbs[-1]
        if seg < final[0] and not ok:
            return ("dl_single_loss_not_repaired", f"{what}: segment {seg} of {nseg} (sub-blocks {sbs[:4]}...) lost, call failed with {res!r}")
    return None


# ------------------------------------------------------------------ Gallina printing
def gfault(f):
    name = {"dropc": "FDropC", "drops": "FDropS", "xors": "FXorS", "aborts": "FAbortS", "dups": "FDupS"}[f[0]]
    return "(" + name + " " + " ".join(gz(x) for x in f[1:]) + ")"


def coq_case(c):
    k = c["kind"]
    if k == "dl":
        return (f"CDl {gbool(c['full'])} {gz(c['index'])} {gz(c['sub'])} {gopt(c['size'])} {gbool(c['crc_client'])} "
                f"{gbool(c['crc_server'])} {gzlist(c['blks'])} {glist([gfault(f) for f in c['faults']])} "
                f"{gz(c['zeros'])} {gz(c['seed'])} {gz(c['n'])} {gzlist(c['lit'])}")
    if k == "crc":
        return f"CCrc {gz(c['init'])} {gzlist(c['data'])}"
    if k == "gen":
        return f"CGen {gz(c['seed'])} {gz(c['n'])}"
    if k == "hash":
        return f"CHash {glist([gzlist(x) for x in c['log']])}"
    raise ValueError(k)


def nontrivial(c):
    if c["kind"] not in ("dl", "dlbuf"):
        return len(c.get("data", c.get("log", [1]))) > 0
    return c["zeros"] + c["n"] + len(c["lit"]) > 7 or bool(c["faults"])


# ------------------------------------------------------------------ generators
BLKS = [[127], [1], [2], [3, 5, 1, 7], [4], [126, 1], [7, 6, 5, 4, 3, 2, 1], [127, 1, 127], [5, 127]]


def dl(n, blks, crc_client=True, crc_server=True, faults=(), zeros=0, seed=1, lit=(), size="len", via="buffered",
       full=None, index=INDEX, sub=0, model=True):
    total = zeros + n + len(lit)
    c = dict(kind="dl", full=(total <= 70 if full is None else full), index=index, sub=sub,
             size=(total if size == "len" else size), crc_client=crc_client, crc_server=crc_server, blks=list(blks),
             faults=[list(f) for f in faults], zeros=zeros, seed=seed, n=n, lit=list(lit), via=via)
    if not model:
        c["model"] = False
    return c


def dlbuf(n, buffering, chunks, blks, crc_client=True, crc_server=True, faults=(), seed=1, zeros=0, src="bytes"):
    """several write() calls through the BufferedWriter of open(); implementation + oracle only.
    Only chunk sizes <= buffer size - 6 (or one single write): a larger chunk that meets a non-empty buffer makes the
    current code fail with BlockingIOError (observation in notes/C12.md)."""
    size = 1024 if buffering is None else buffering
    assert len(chunks) == 1 and chunks[0] >= zeros + n or all(1 <= k <= size - 6 for k in chunks), (buffering, chunks)
    return dict(kind="dlbuf", full=False, index=INDEX, sub=0, size=zeros + n, crc_client=crc_client, crc_server=crc_server,
                blks=list(blks), faults=[list(f) for f in faults], zeros=zeros, seed=seed, n=n, lit=[], buffering=buffering,
                chunks=list(chunks), src=src, model=False)


def rblks(rng):
    r = rng.random()
    if r < 0.4:
        return rng.choice(BLKS)
    return [rng.choice([1, 2, 3, 7, 8, 126, 127, rng.randint(1, 127)]) for _ in range(rng.randint(1, 6))]


def boundaries(top):
    s = set()
    for m in (1, 2, 126, 127, 128, 254):
        s.update((7 * m - 1, 7 * m, 7 * m + 1))
    k = 1
    while 889 * k - 1 <= top:
        s.update((889 * k - 1, 889 * k, 889 * k + 1))
        k += 1 if k < 3 else 4
    return sorted(x for x in s if 1 <= x <= top)


def server_frame_count(n, blks):
    nseg = (n + 6) // 7
    return 1 + len(subblocks(nseg, blks)) + 1


def gen_cases(rng, tier):
    cases = []
    quick = tier != "thorough"
    crcs = [(True, True), (True, False), (False, True), (False, False)]
    # ---- ties for the modelled-not-verified pieces
    for _ in range(20 if quick else 200):
        n = rng.choice([0, 1, 6, 7, 8, 13, 14, 15, rng.randint(0, 64)])
        cases.append(dict(kind="crc", init=rng.choice([0, 0, rng.randrange(65536)]), data=[rng.randrange(256) for _ in range(n)]))
    cases.append(dict(kind="crc", init=0, data=list(b"123456789")))
    cases.append(dict(kind="crc", init=0, data=[0] * 20))
    cases.append(dict(kind="crc", init=0xFFFF, data=[0xFF] * 9))
    for _ in range(3):
        cases.append(dict(kind="gen", seed=rng.randrange(1 << 31), n=rng.randint(1, 40)))
        cases.append(dict(kind="hash", log=[[rng.randrange(256) for _ in range(rng.choice([0, 1, 9]))] for _ in range(rng.randint(0, 4))]))
    # ---- undisturbed: every length 1..60 with changing block sizes, CRC on/off, both callers
    top = 60 if quick else 200
    for n in range(1, top + 1):
        for rep in range(2 if quick else 3):
            cc, sc = crcs[(n + rep) % 4] if rep else (True, True)
            cases.append(dl(n, rblks(rng) if rep else BLKS[n % len(BLKS)], cc, sc, seed=rng.randrange(1 << 31),
                            via=("raw" if (n + rep) % 3 == 0 else "buffered")))
    for n in boundaries(2700 if quick else 10000):
        if n > 60:
            for blks in ([127], rblks(rng)):
                cc, sc = rng.choice(crcs)
                cases.append(dl(n, blks, cc, sc, seed=rng.randrange(1 << 31), via=rng.choice(["raw", "buffered"])))
    # buffer_size boundary of io.BufferedWriter (1024) and payloads with zeros (CRC register 0)
    for n in (1023, 1024, 1025, 1031, 2048, 2055):
        cases.append(dl(n, rblks(rng), seed=rng.randrange(1 << 31)))
    cases.append(dl(0, [3], zeros=40))
    cases.append(dl(5, [127], zeros=14, crc_client=True, crc_server=True))
    cases.append(dl(3, [2], lit=[255, 0, 128], index=0x1F50, sub=1))
    cases.append(dl(10, [2, 1], seed=1))
    if not quick:
        for n in list(range(201, 1001)) + [7 * m + d for m in range(143, 1430, 10) for d in (-1, 0, 1)] + [9999, 10000, 10001]:
            cases.append(dl(n, rblks(rng), *rng.choice(crcs), seed=rng.randrange(1 << 31), model=False,
                            via=rng.choice(["raw", "buffered"])))
    # ---- single lost segment: every position
    confs = [(30, [4]), (30, [3, 5, 2]), (100, [127]), (50, [1]), (64, [2]), (21, [3]), (28, [2, 2])]
    if not quick:
        confs += [(200, [3, 5, 2]), (200, [127]), (120, [4]), (900, [127]), (1800, [100, 27]), (77, [11]), (70, [5])]
    for n, blks in confs:
        nseg = (n + 6) // 7
        for k in range(1, nseg + 1):
            if quick and nseg > 10 and rng.random() < 0.5 and k not in (1, nseg, nseg - 1):
                continue
            cc, sc = (True, True) if k % 3 else rng.choice(crcs)
            cases.append(dl(n, blks, cc, sc, faults=[["dropc", k + 1]], seed=rng.randrange(1 << 31),
                            via=("raw" if k % 4 == 0 else "buffered")))
    for _ in range(40 if quick else 400):
        n = rng.choice([rng.randint(8, 120), rng.randint(8, 400)])
        nseg = (n + 6) // 7
        cases.append(dl(n, rblks(rng), *rng.choice(crcs), faults=[["dropc", rng.randint(2, nseg + 1)]],
                        seed=rng.randrange(1 << 31)))
    # ---- seeded multi-loss of client frames (also the initiate and the end request)
    for _ in range(60 if quick else 600):
        n = rng.randint(1, 150)
        nseg = (n + 6) // 7
        ks = sorted(set(rng.randint(1, nseg + 4) for _ in range(rng.randint(2, 4))))
        cases.append(dl(n, rblks(rng), *rng.choice(crcs), faults=[["dropc", k] for k in ks], seed=rng.randrange(1 << 31)))
    for n, blks in ((5, [127]), (20, [2]), (40, [3])):
        nseg = (n + 6) // 7
        cases.append(dl(n, blks, faults=[["dropc", 1]]))
        cases.append(dl(n, blks, faults=[["dropc", nseg + 2]]))        # the end request
    # ---- C07 part: every server frame lost / aborted / corrupted / duplicated
    for n, blks in ((5, [127]), (20, [2]), (30, [4]), (15, [1])) + (() if quick else ((60, [3, 5]), (100, [127]), (14, [1, 2]))):
        for j in range(1, server_frame_count(n, blks) + 1):
            fl = [["drops", j], ["aborts", j, 0x08000000], ["aborts", j, 0x05040001], ["dups", j],
                  ["xors", j, 0, 0x20], ["xors", j, 0, 0x80], ["xors", j, 0, 0x01], ["xors", j, 0, 0x02], ["xors", j, 0, 0x40],
                  ["xors", j, 1, 0x01], ["xors", j, 2, 0x01], ["xors", j, 1, 0x80], ["xors", j, 2, 0x40], ["xors", j, 3, 0x01],
                  ["xors", j, 4, 0x01], ["xors", j, 4, 0x7E]]
            for f in fl:
                cases.append(dl(n, blks, *(rng.choice(crcs) if rng.random() < 0.3 else (True, True)), faults=[f],
                                seed=rng.randrange(1 << 31)))
    # mixed
    for _ in range(30 if quick else 300):
        n = rng.randint(1, 80)
        blks = rblks(rng)
        nseg = (n + 6) // 7
        fs = []
        for _ in range(rng.randint(1, 3)):
            t = rng.choice(["dropc", "drops", "dups", "xors", "aborts"])
            j = rng.randint(1, nseg + 3)
            fs.append({"dropc": ["dropc", j], "drops": ["drops", j], "dups": ["dups", j],
                       "xors": ["xors", j, rng.randint(0, 7), 1 << rng.randint(0, 7)],
                       "aborts": ["aborts", j, rng.choice([0x05040000, 0x06090011])]}[t])
        cases.append(dl(n, blks, *rng.choice(crcs), faults=fs, seed=rng.randrange(1 << 31)))
    # ---- the buffered writer with several write() calls (implementation + oracle): default and small buffers, payloads
    #      below / at / above the buffer size, chunk sizes up to buffer - 6, CRC on/off, undisturbed and one repaired loss
    for buffering in (None, None, 8, 9, 16, 64, 100, 512):
        size = 1024 if buffering is None else buffering
        ns = sorted({1, 6, 7, 8, size - 7, size - 1, size, size + 1, size + 8, 2 * size + 5, 3 * size, 5 * size + 3,
                     rng.randint(size + 1, 4 * size)})
        if buffering is not None and not quick:
            ns += [rng.randint(1, 6 * size) for _ in range(6)]
        for n in ns:
            if n < 1:
                continue
            pats = [[k] for k in sorted({1, 2, 7, 13, 100, 256, 333, size // 4, size // 2, size - 7, size - 6}) if 1 <= k <= size - 6]
            pats += [[rng.randint(1, size - 6) for _ in range(rng.randint(2, 5))], [n]]
            if quick:
                pats = rng.sample(pats, min(len(pats), 4 if n > size else 2))
            for chunks in pats:
                if sum(1 for _ in range(0, n, max(1, min(chunks)))) > 3000:
                    continue
                cc, sc = rng.choice(crcs) if rng.random() < 0.3 else (True, True)
                cases.append(dlbuf(n, buffering, chunks, rblks(rng) if rng.random() < 0.5 else [127], cc, sc, seed=rng.randrange(1 << 31),
                                   src=rng.choice(["bytes", "bytes", "bytearray"])))
                nseg = (n + 6) // 7
                sbs = subblocks(nseg, cases[-1]["blks"])
                if len(sbs) > 1 and rng.random() < 0.5:
                    k = rng.randint(1, sbs[-1][0] - 1)          # a segment of a non-final sub-block
                    cases.append(dict(cases[-1], faults=[["dropc", k + 1]], seed=rng.randrange(1 << 31)))
    # ---- outside the quantifier, model tie only: size not declared (multiple of 7), declared size too small
    cases.append(dl(14, [127], size=None, via="raw"))
    cases.append(dl(21, [2], size=None))
    cases.append(dl(3, [127], size=4294967296))      # struct.error before any frame is sent
    cases.append(dl(3, [127], size=-1))
    cases.append(dl(20, [3], size=10))               # declared size too small: RuntimeError on the next write
    cases.append(dl(10, [3], size=20, via="raw"))    # declared size too large: write returns None
    if tier == "search":
        cases = [c for c in cases if c["kind"] in ("dl", "dlbuf")]
    rng.shuffle(cases)        # spread the long transfers over the model-evaluation chunks
    return cases


def shrink(c):
    if c["kind"] != "dl":
        return
    total = c["zeros"] + c["n"] + len(c["lit"])
    if len(c["faults"]) > 1:
        for i in range(len(c["faults"])):
            yield dict(c, faults=c["faults"][:i] + c["faults"][i + 1:])
    if c["blks"] != [127] and len(c["blks"]) > 1:
        yield dict(c, blks=c["blks"][:1])
    for n2 in (c["n"] // 2, c["n"] - 7, c["n"] - 1):
        if 0 <= n2 < c["n"] and c["zeros"] + n2 + len(c["lit"]) >= 1:
            t2 = c["zeros"] + n2 + len(c["lit"])
            yield dict(c, n=n2, size=(t2 if c["size"] == total else c["size"]), full=t2 <= 70)
    if c.get("via") == "raw":
        yield dict(c, via="buffered")


def neighbours(c, rng):
    if c["kind"] != "dl":
        return
    for d in (-7, -1, 1, 7):
        n2 = c["n"] + d
        if n2 >= 1:
            t2 = c["zeros"] + n2 + len(c["lit"])
            yield dict(c, n=n2, size=t2, full=t2 <= 70)
    for blks in BLKS[:4]:
        yield dict(c, blks=blks)
