"""C01 - SDO client transfers exactly the caller's bytes in conformant CiA 301 frames.

Implementation side: the real canopen.sdo.SdoClient (download / upload / open with the real
io.BufferedWriter / BufferedReader / TextIOWrapper) on a synchronous bus against the Python
reference server harness/ref/sdo_ref_server.py.  The raw-stream calls made by the io wrappers
are recorded (WritableStream.write / close, ReadableStream.read are wrapped at run time, no source
change) and fed to the model as write schedule / read count.

The machinery of this module (runner, oracle, printers) is shared with props/c07.py."""
import gc, io, json, logging, sys

from vlib.obs import S, Err, Abort, canon_exc, gz, gzlist, gbool, gopt, glist, E_SDOCOMM, E_OTHER, E_VALUE, E_RUNTIME
from ref.sdo_ref_server import RefServer, Medium, mux_key, DEFAULT_STYLE, VIOLATION_NAMES

PROP = "C01"
MODEL_VO = ["theories/Model/SdoClient.vo"]
COQ_IMPORTS = "From CV Require Import Model.RefServer Model.SdoClient."
COQ_RUN = "run_sdoclient"
COQ_CASE_TYPE = "sdo_case"
ANCHORS = [("canopen.sdo.client", "SdoClient.send_request"), ("canopen.sdo.client", "SdoClient.read_response"),
           ("canopen.sdo.client", "SdoClient.request_response"), ("canopen.sdo.client", "SdoClient.abort"),
           ("canopen.sdo.client", "SdoClient.upload"), ("canopen.sdo.client", "SdoClient.download"),
           ("canopen.sdo.client", "SdoClient.open"), ("canopen.sdo.client", "ReadableStream"),
           ("canopen.sdo.client", "WritableStream"), ("canopen.objectdictionary", "ODVariable.__len__"),
           ("canopen.objectdictionary", "ObjectDictionary.get_variable")]
RULE = ("a case is a sequence of 1..5 transfers on one client and one reference server; observed: result of every "
        "transfer, complete frame trace (requests and responses), violation count of the reference server, final store; "
        "every length 0..64 x {download, forced segmentation, open unbuffered with/without size, open buffering 7/1024, "
        "text mode}, all compositions of write() calls for lengths <= 8, uploads x 10 server styles x {upload, raw read, "
        "buffered read(n) loops, text}; non-trivial = a transfer with at least one data segment or expedited data byte; "
        "distinct by canonical JSON of the case")
TRUSTED = ["modelled, not verified: io.BufferedWriter / BufferedReader / TextIOWrapper (their raw-call sequences are "
           "recorded from the real objects and are inputs of the model), queue.Queue, the wall-clock time-out "
           "(an empty response queue after the synchronous send is the time-out), CPython finalizers "
           "(a WritableStream whose constructor raised is closed by its finalizer; modelled)",
           "harness/ref/sdo_ref_server.py (Python reference server, twin of Model/RefServer.v, tied by trace comparison)"]
ASSUMPTIONS = ["the bus delivers frames in order and never raises CanError (send_request retry path not modelled)",
               "write schedules offer non-empty prefixes of the data not yet accepted; an expedited raw stream is "
               "offered at least `size` bytes at once (smaller offers make write() return 0 for ever)",
               "read buffers hold at least 7 bytes (readinto into a smaller buffer raises in the library)",
               "payloads and announced sizes are below 2^32 bytes"]

logging.disable(logging.CRITICAL)

# ------------------------------------------------------------------ recording of raw-stream calls
REC = []
_installed = False


def install():
    """wrap the raw stream methods (idempotent); lower the time-out through the class attribute"""
    global _installed
    if _installed:
        return
    from canopen.sdo import client as C
    ow, oc, orr, ori = C.WritableStream.write, C.WritableStream.close, C.ReadableStream.read, C.ReadableStream.readinto

    def w(self, b):
        REC.append(("W", len(b)))
        return ow(self, b)

    def c(self):
        REC.append(("C",))
        return oc(self)

    def r(self, size=-1):
        if size is None or size < 0:
            if getattr(self, "_pending", b"") or self._done or self.exp_data is not None:
                REC.append(("R", -1))
            return orr(self, size)
        if getattr(self, "_vf_in", False):
            return orr(self, size)
        REC.append(("R", -1))
        self._vf_in = True
        try:
            return orr(self, size)
        finally:
            self._vf_in = False

    def ri(self, b):
        REC.append(("R", len(b)))
        self._vf_in = True
        try:
            return ori(self, b)
        finally:
            self._vf_in = False

    C.WritableStream.write, C.WritableStream.close, C.ReadableStream.read = w, c, r
    C.ReadableStream.readinto = ri
    C.SdoClient.RESPONSE_TIMEOUT = 0.002
    sys.unraisablehook = lambda *a: None      # exceptions of finalizers are swallowed by CPython
    _installed = True


class Stuck(Exception):
    pass


def make_net(medium):
    import canopen

    class Net(canopen.Network):
        def __init__(self):
            super().__init__()
            self.log = []
            self.senderr = None      # k: the k-th send of this transfer raises can.CanError once (frame not sent)
            self.nsend = 0

        def send_message(self, can_id, data, remote=False):
            d = bytes(data)
            if can_id != 0x601 or remote:
                self.log.append(b"\x02" + d)
                return
            k, self.nsend = self.nsend, self.nsend + 1
            if self.senderr is not None and k == self.senderr:
                self.senderr = None
                import can
                raise can.CanError("transmit buffer full")
            self.log.append(b"\x00" + d)
            for r in medium.step(d):
                self.log.append(b"\x01" + r)
                self.notify(0x581, bytearray(r), 0.0)
    return Net()


def od_members(x):
    """the members a record / array entry of the client's dictionary lists: [[sub, data type], ...]"""
    sh, dt, sub = x.get("shape", "var"), x.get("dt"), x["sub"]
    if sh == "rec":
        return [[0, 0x05]] + ([[sub, dt]] if sub != 0 else [])
    if sh == "arr_listed":
        return [[0, 0x05], [1, dt]] + ([[sub, dt]] if sub > 1 else [])
    if sh == "arr_template":                      # only sub 0 and 1 are described (CompactSubObj style)
        return [[0, 0x05], [1, dt]]
    raise ValueError(sh)


def _od(idx, sub, odt, x=None):
    from canopen.objectdictionary import ObjectDictionary, ODVariable, ODRecord, ODArray
    od = ObjectDictionary()
    sh = (x or {}).get("shape", "var")
    if sh == "var":
        if odt is not None:
            v = ODVariable("v", idx, sub)
            v.data_type = odt
            od.add_object(v)
        return od
    obj = (ODRecord if sh == "rec" else ODArray)("o", idx)
    for s_, dt_ in od_members(x):
        v = ODVariable("m%d" % s_, idx, s_)
        v.data_type = dt_
        obj.add_member(v)
    od.add_object(obj)
    return od


def declared_type(x):
    """CiA 301: the data type the dictionary declares for idx:sub (sub 0 of a record / array is the UNSIGNED8
    count, every element 1..255 of an ARRAY has the array's element type, listed one by one or not)"""
    sh = x.get("shape", "var")
    if sh == "var":
        return x.get("odt")
    if x["sub"] == 0:
        return 0x05
    if sh == "rec":
        return x.get("dt")
    return x.get("dt") if 1 <= x["sub"] <= 255 else None


def _retry(call, x):
    """a caller that repeats the same raw read()/write() once after a transient can.CanError"""
    if x.get("senderr") is None:
        return call()
    import can
    try:
        return call()
    except can.CanError:
        return call()


def _do_download(client, x):
    data = bytes(x["data"])
    if x["via"] == "download":
        client.download(x["idx"], x["sub"], data, force_segment=x["force"])
        return None
    text = x.get("text", False)
    b = x["buffering"]
    with client.open(x["idx"], x["sub"], "w" if text else "wb", buffering=b, size=x["size"],
                     force_segment=x["force"]) as fp:
        pos = 0
        for k in x["writes"]:
            chunk = data[pos:pos + k]
            pos += k
            if text:
                fp.write(chunk.decode("ascii"))
            elif b == 0:
                while chunk:
                    n = _retry(lambda: fp.write(chunk), x)
                    if not n:
                        raise Stuck("raw write accepted nothing")
                    chunk = chunk[n:]
            else:
                fp.write(chunk)
        if x.get("flush"):
            fp.flush()
    return None


def _do_upload(client, x):
    if x["via"] == "upload":
        return bytes(client.upload(x["idx"], x["sub"]))
    text = x.get("text", False)
    with client.open(x["idx"], x["sub"], "r" if text else "rb", buffering=x["buffering"]) as fp:
        n = x.get("reads")
        if n is None:
            got = fp.read()
        elif n < 0:
            got = fp.read(-n)
            got += fp.read()
        else:
            got = "" if text else b""
            while True:
                c = _retry(lambda: fp.read(n), x)
                if not c:
                    break
                got += c
    return got.encode("ascii") if text else bytes(got)


_CACHE = {}     # case json -> list of recorded raw-call sequences (one per transfer)


def _ckey(case):
    return json.dumps(case, sort_keys=True)


def impl(case):
    install()
    srv = RefServer({int(k): bytes(v) for k, v in case["store"]})
    med = Medium(srv)
    net = make_net(med)
    node = net.add_node(1, _od(0, 0, None))
    client = node.sdo
    out, recs = [], []
    for t in case["ts"]:
        x = t["x"]
        if x["op"] == "put":
            srv.put(x["idx"], x["sub"], x["value"])
            out.append([None, [] if case["full"] else 0, len(srv.viol)])
            recs.append([])
            continue
        srv.set_style(t.get("style"))
        med.arm(t.get("fault"))
        for fr in t.get("pre", []):
            net.notify(0x581, bytearray(fr), 0.0)
        net.log = []
        net.nsend, net.senderr = 0, x.get("senderr")
        del REC[:]
        client.od = _od(x["idx"], x["sub"], x.get("odt"), x)
        failed = False
        try:
            res = _do_download(client, x) if x["op"] == "dl" else _do_upload(client, x)
        except Exception as e:            # noqa: BLE001
            res = canon_exc(e)
            if isinstance(e, AssertionError):
                res = Err(E_OTHER, "AssertionError")
            failed = True
            del e
        if failed:
            gc.collect()                  # run the finalizer of a half-built stream now, not later
        med.arm(None)
        rec = list(REC)
        recs.append(rec)
        o = [res, list(net.log) if case["full"] else len(net.log), len(srv.viol)]
        shape = _shape(x, rec)
        if shape:
            o.append(S(shape))
        out.append(o)
    _CACHE[_ckey(case)] = recs
    keys = case_keys(case)
    return [out, [[k, srv.store.get(k)] for k in keys], list(srv.viol)]


def _shape(x, rec):
    """the raw-call sequence must be W* C (download; just C after a failed constructor) or R* (upload)"""
    ops = [r[0] for r in rec]
    if x["op"] == "dl":
        if ops.count("C") != 1 or ops[-1] != "C" or any(o not in "WC" for o in ops):
            return "unexpected raw-call sequence " + "".join(ops)
    else:
        if any(o != "R" for o in ops):
            return "unexpected raw-call sequence " + "".join(ops)
    return ""


def case_keys(case):
    ks = {int(k) for k, _ in case["store"]}
    for t in case["ts"]:
        ks.add(mux_key(t["x"]["idx"], t["x"]["sub"]))
    return sorted(ks)


# ------------------------------------------------------------------ Gallina printing
def gstyle(st):
    s = dict(DEFAULT_STYLE)
    s.update(st or {})
    return ("{| st_size_ind := %s; st_expedite := %s; st_exp_size := %s; st_lazy_end := %s; st_segs := %s |}"
            % (gbool(s["size_ind"]), gbool(s["expedite"]), gbool(s["exp_size"]), gbool(s["lazy_end"]), gzlist(s["segs"])))


def gfault(f):
    if f is None:
        return "None"
    k, d = f
    n = d["f"]
    if n == "lost": t = "FLost"
    elif n == "lostreq": t = "FLostReq"
    elif n == "delay": t = "FDelay"
    elif n == "dup": t = "FDup"
    elif n == "replace": t = "(FReplace %s)" % glist([gzlist(x) for x in d["frames"]])
    elif n == "xor0": t = "(FXor0 %s)" % gz(d["m"])
    elif n == "mux": t = "(FMux %s)" % gzlist(d["m"])
    elif n == "stale": t = "(FStale %s)" % gzlist(d["frame"])
    else: raise ValueError(n)
    return "(Some (%d%%nat, %s))" % (k, t)


def gxfer(x, rec):
    if x["op"] == "put":
        return "(TPut %s %s %s)" % (gz(x["idx"]), gz(x["sub"]), gzlist(x["value"]))
    if x["op"] == "dl":
        size = len(x["data"]) if x["via"] == "download" else x["size"]
        if x["via"] == "open" and x["buffering"] != 0:
            ops = [r[1] if r[0] == "W" else -1 for r in rec]
            return "(TDlOps %s %s %s %s %s %s)" % (gz(x["idx"]), gz(x["sub"]), gzlist(x["data"]), gopt(size),
                                                     gbool(x["force"]), gzlist(ops))
        sched = [r[1] for r in rec if r[0] == "W"]
        return "(TDl %s %s %s %s %s %s)" % (gz(x["idx"]), gz(x["sub"]), gzlist(x["data"]), gopt(size),
                                              gbool(x["force"]), gzlist(sched))
    if x["via"] == "upload":
        mode = "UUpload"
    elif x["buffering"] == 0 and x.get("reads") is None:
        mode = "URaw"
    else:
        mode = "(UReads %s)" % gzlist([r[1] for r in rec if r[0] == "R"])
    return "(TUl %s %s %s %s)" % (gz(x["idx"]), gz(x["sub"]), godshape(x), mode)


def godshape(x):
    sh = x.get("shape", "var")
    if sh == "var":
        return "ONone" if x.get("odt") is None else "(OVarT (Some %s))" % gz(x["odt"])
    ms = glist(["(%s, Some %s)" % (gz(a), gz(b)) for a, b in od_members(x)])
    return "(%s %s)" % ("ORecT" if sh == "rec" else "OArrT", ms)


def coq_case(case):
    recs = _CACHE.get(_ckey(case))
    if recs is None:
        impl(case)
        recs = _CACHE[_ckey(case)]
    ts = []
    for t, rec in zip(case["ts"], recs):
        ts.append("{| t_style := %s; t_fault := %s; t_pre := %s; t_x := %s |}"
                  % (gstyle(t.get("style")), gfault(t.get("fault")),
                     glist([gzlist(f) for f in t.get("pre", [])]), gxfer(t["x"], rec)))
    store = glist(["(%s, %s)" % (gz(int(k)), gzlist(v)) for k, v in case["store"]])
    return ("{| c_store := %s; c_keys := %s; c_full := %s; c_ts := %s |}"
            % (store, gzlist(case_keys(case)), gbool(case["full"]), glist(ts)))


# ------------------------------------------------------------------ oracle (CiA 301 + plain arithmetic)
# fixed-size numeric types of CiA 301 (7.4.7): type number -> size in bytes
FIXED = {0x01: 1, 0x02: 1, 0x03: 2, 0x04: 4, 0x05: 1, 0x06: 2, 0x07: 4, 0x08: 4, 0x10: 3, 0x11: 8, 0x12: 5, 0x13: 6,
         0x14: 7, 0x15: 8, 0x16: 3, 0x18: 5, 0x19: 6, 0x1A: 7, 0x1B: 8}
UNKNOWN = object()
TIMEOUT_ABORT = b"\x80\x00\x00\x00\x00\x00\x04\x05"


def expected_upload(v, style, odt):
    st = dict(DEFAULT_STYLE)
    st.update(style or {})
    wire = v
    if st["expedite"] and 1 <= len(v) <= 4 and not st["exp_size"]:
        wire = v.ljust(4, b"\0")          # expedited without size: the four data bytes
    if odt in FIXED:
        return wire[:FIXED[odt]]
    return wire


def oracle(case, obs):
    outs, store, viol = obs
    exp = {int(k): bytes(v) for k, v in case["store"]}
    nviol = 0
    for i, (t, o) in enumerate(zip(case["ts"], outs)):
        x = t["x"]
        res, trace, nv = o[0], o[1], o[2]
        key = mux_key(x["idx"], x["sub"])
        if x["op"] == "put":
            exp[key] = bytes(x["value"])
            continue
        if not (0 <= x["idx"] < 65536 and 0 <= x["sub"] < 256):
            nviol = nv                      # not an object address: outside the property's domain
            continue
        fault = t.get("fault")
        disturbed = fault is not None
        where = f"transfer {i} ({x['op']} 0x{x['idx']:04X}:{x['sub']:02X})"
        if case["full"]:
            for fr in trace:
                if fr[0] == 0 and len(fr) != 9:
                    return ("request_not_8_bytes", f"{where}: request {fr[1:].hex()}")
                if fr[0] == 2:
                    return ("wrong_cob_id", f"{where}: frame {fr[1:].hex()} not sent to the server's COB-ID")
        se = x.get("senderr") is not None     # one transmit failed (frame never left), the caller repeated the call
        if not disturbed:
            if nv != nviol:
                codes = viol[nviol:nv]
                return ("illegal_frame_after_send_error" if se else "illegal_request:%d" % codes[0],
                        f"{where}: reference server flags {[VIOLATION_NAMES[c] for c in codes]}; trace "
                        f"{[f.hex() for f in trace] if case['full'] else trace}")
            if x["op"] == "dl":
                if res is not None:
                    return ("download_stuck_after_send_error" if se else "download_failed", f"{where}: {res!r}")
                exp[key] = bytes(x["data"])
            else:
                v = exp.get(key)
                if v is UNKNOWN:
                    pass
                elif v is None:
                    if res != Abort(0x06020000):
                        return ("upload_missing_object", f"{where}: {res!r}")
                else:
                    want = expected_upload(v, t.get("style"), declared_type(x) if x["via"] == "upload" else None)
                    if isinstance(res, Err) and res.kind == E_VALUE and x["via"] == "open" and x["buffering"] and not x.get("text"):
                        return ("buffered_read_raises", f"{where}: server holds {len(v)} bytes, style {t.get('style')}, "
                                f"open(buffering={x['buffering']}).read({x.get('reads')}): {res!r}")
                    if res != want:
                        return ("upload_wrong_after_send_error" if se else "upload_wrong_data", f"{where}: server holds {v.hex()} ({len(v)} bytes), style "
                                f"{t.get('style')}, dictionary entry {x.get('shape', 'var')} declared type {declared_type(x)}: got {res!r}, expected {want.hex()}")
        else:
            ok_err = isinstance(res, Abort) or (isinstance(res, Err) and res.kind == E_SDOCOMM)
            if x["op"] == "dl":
                if res is None:
                    exp[key] = bytes(x["data"])          # success claimed: checked against the store below
                elif ok_err:
                    exp[key] = UNKNOWN
                elif isinstance(res, Err) and res.kind == E_RUNTIME:
                    return ("flush_after_failed_last_segment_runtimeerror",
                            f"{where} fault {fault}: {res!r} reaches the caller instead of the SDO error")
                else:
                    return ("disturbed_wrong_exception", f"{where} fault {fault}: {res!r}")
            else:
                v = exp.get(key)
                if isinstance(res, bytes):
                    if v is not UNKNOWN and v is not None:
                        want = expected_upload(v, t.get("style"), declared_type(x) if x["via"] == "upload" else None)
                        if res != want:
                            return ("disturbed_success_with_wrong_data",
                                    f"{where} fault {fault}: got {res!r}, server holds {v.hex()}")
                    elif v is None:
                        return ("disturbed_success_with_wrong_data", f"{where} fault {fault}: got {res!r}, no object")
                elif not ok_err:
                    return ("disturbed_wrong_exception", f"{where} fault {fault}: {res!r}")
            if case["full"] and x["op"] == "dl" and fault[0] == 0 and not (res is None):
                # a segmented download whose INITIATION failed has not started: the client may put nothing more on
                # the bus, except the one abort with the time-out code when no response came at all
                reqs = [j for j, fr in enumerate(trace) if fr[0] == 0]
                if reqs and (trace[reqs[0]][1] >> 5) == 1 and not (trace[reqs[0]][1] & 0x02):
                    nxt = reqs[1] if len(reqs) > 1 else len(trace)
                    answered = any(fr[0] == 1 for fr in trace[reqs[0] + 1:nxt])
                    extra = [trace[j] for j in reqs[1:]]
                    ok = (extra == []) if answered else \
                        (len(extra) == 1 and len(extra[0]) == 9 and extra[0][1] == 0x80 and extra[0][5:9] == TIMEOUT_ABORT[4:])
                    if not ok:
                        return ("frame_after_failed_initiation",
                                f"{where} fault {fault}: initiate download {'answered' if answered else 'not answered'}, "
                                f"call raised {res!r}, yet the client then sent {[f[1:].hex() for f in extra]}")
            if case["full"] and fault[1]["f"] in ("lost", "lostreq", "delay"):
                reqs = [j for j, fr in enumerate(trace) if fr[0] == 0]
                if fault[0] < len(reqs):
                    j = reqs[fault[0]]
                    if trace[j][1] != 0x80:      # the lost frame was not itself an abort
                        nxt = trace[j + 1] if j + 1 < len(trace) else b""
                        if not (len(nxt) == 9 and nxt[0] == 0 and nxt[1] == 0x80 and nxt[5:9] == TIMEOUT_ABORT[4:]):
                            return ("no_timeout_abort", f"{where}: response to request #{fault[0]} lost, next frame "
                                    f"{nxt.hex()} is not an abort with code 0x05040000")
                        if not (isinstance(res, Err) or isinstance(res, Abort)):
                            return ("lost_response_not_reported", f"{where}: {res!r}")
        nviol = nv
    # final store: every object holds what the successful downloads delivered
    got = {k: v for k, v in store}
    for k, v in exp.items():
        if v is UNKNOWN:
            continue
        if got.get(k) != v:
            return ("store_differs", f"object key 0x{k:X}: server holds "
                    f"{None if got.get(k) is None else got.get(k).hex()}, delivered payload {None if v is None else v.hex()}")
    return None


def nontrivial(case):
    for t in case["ts"]:
        x = t["x"]
        if x["op"] == "dl" and len(x["data"]) >= 1:
            return True
        if x["op"] == "ul":
            return True
    return False


# ------------------------------------------------------------------ generators
STYLES = [
    {},
    {"size_ind": False},
    {"exp_size": False},
    {"expedite": False},
    {"expedite": False, "size_ind": False, "lazy_end": True},
    {"segs": [1] * 70},
    {"segs": [3, 0, 7, 0, 0, 2, 5, 0, 1, 6, 4] * 4},
    {"segs": [0, 0, 7, 7, 0, 7], "size_ind": False},
    {"lazy_end": True},
    {"segs": [7, 7, 6, 0], "lazy_end": True, "exp_size": False},
]
MUXES = [(0x2000, 0), (0x1018, 1), (0x0000, 0), (0xFFFF, 255), (0x6040, 0), (0x1A00, 8), (0x00FF, 128), (0xFF00, 1)]
KEY_PAIRS = [((0x2100, 1), (0x4200, 0)), ((0x2000, 1), (0x2001, 0)), ((0x2000, 3), (0x2000, 4)), ((0x2003, 0), (0x2000, 3)),
             ((0x1234, 5), (0x3412, 5)), ((0x2143, 0), (0x0021, 0x43)), ((0x1080, 2), (0x2100, 1)), ((0x6040, 0), (0x6040, 1))]
ODTS = [None, None, 0x0F, 0x09, 0x0C, 0x05, 0x06, 0x07, 0x04, 0x10, 0x16, 0x15, 0x1B, 0x08, 0x11, 0x01, 0x0D, 0x40]


def rdata(rng, n, text=False):
    if text:
        return [rng.choice([10] + list(range(32, 127))) for _ in range(n)]
    return [rng.choice((0, 255, rng.randrange(256), rng.randrange(256))) for _ in range(n)]


def compositions(n):
    if n == 0:
        return [[]]
    out = []
    for first in range(1, n + 1):
        for rest in compositions(n - first):
            out.append([first] + rest)
    return out


def rsplit(rng, n, maxpart=None):
    out = []
    while n > 0:
        k = rng.randint(1, min(n, maxpart or n))
        out.append(k)
        n -= k
    return out


def dl_x(rng, n, variant, mux=None, data=None):
    idx, sub = mux or rng.choice(MUXES)
    text = variant == "text"
    d = data if data is not None else rdata(rng, n, text)
    x = dict(op="dl", idx=idx, sub=sub, data=d, size=None, force=False, via="open", buffering=0, text=False, writes=[n] if n else [])
    if variant == "download": x.update(via="download")
    elif variant == "force": x.update(via="download", force=True)
    elif variant == "b0_nosize": x.update(writes=rsplit(rng, n))
    elif variant == "b0_size": x.update(size=n, writes=[n] if 1 <= n <= 4 else rsplit(rng, n))
    elif variant == "b0_size_force": x.update(size=n, force=True, writes=rsplit(rng, n))
    elif variant == "b7_size": x.update(size=n, buffering=7, writes=rsplit(rng, n, 5))
    elif variant == "b7_nosize": x.update(buffering=7, writes=rsplit(rng, n, 9))
    elif variant == "b1024_nosize": x.update(buffering=1024, writes=rsplit(rng, n, 11))
    elif variant == "b1024_size": x.update(size=n, buffering=1024, writes=rsplit(rng, n, 3))
    elif variant == "b1024_size_flush": x.update(size=n, buffering=1024, writes=[n] if n else [], flush=True)
    elif variant == "b1024_nosize_flush": x.update(buffering=1024, writes=rsplit(rng, n, 9), flush=True)
    elif variant == "text_size_line":
        d = rdata(rng, n, True) if data is None else d
        if d:
            d[-1] = 10
        x.update(data=d, text=True, buffering=1, size=n, writes=[n] if n else [])
    elif variant == "text":
        size = rng.choice((None, n))
        x.update(text=True, buffering=1, size=size, writes=[n] if (size is not None and 1 <= n <= 4) else rsplit(rng, n, 13))
    else: raise ValueError(variant)
    return x


DL_VARIANTS = ["download", "force", "b0_nosize", "b0_size", "b0_size_force", "b7_size", "b7_nosize", "b1024_nosize",
               "b1024_size", "text", "b1024_size_flush", "b1024_nosize_flush", "text_size_line"]
UL_VARIANTS = ["upload", "raw", "b7_all", "b7_r5", "b1024_all", "b1024_r3", "text_all", "text_r6", "b7_r5_all", "b8_r9_all",
               "b0_r1", "b0_r3", "b0_r6", "b0_r7", "b0_r4_all"]


def ul_x(rng, variant, mux, odt=None):
    idx, sub = mux
    x = dict(op="ul", idx=idx, sub=sub, odt=odt, via="open", buffering=0, text=False, reads=None)
    if variant == "upload": x.update(via="upload")
    elif variant == "raw": pass
    elif variant == "b7_all": x.update(buffering=7)
    elif variant == "b7_r5": x.update(buffering=7, reads=5)
    elif variant == "b1024_all": x.update(buffering=1024)
    elif variant == "b1024_r3": x.update(buffering=1024, reads=3)
    elif variant == "text_all": x.update(buffering=1, text=True)
    elif variant == "text_r6": x.update(buffering=1, text=True, reads=6)
    elif variant == "b7_r5_all": x.update(buffering=7, reads=-5)
    elif variant == "b8_r9_all": x.update(buffering=8, reads=-9)
    elif variant.startswith("b0_r"):              # read(n) on the unbuffered stream itself
        n = int(variant[4:].split("_")[0])
        x.update(reads=-n if variant.endswith("_all") else n)
    else: raise ValueError(variant)
    return x


def T(x, style=None, fault=None, pre=None):
    return dict(style=style or {}, fault=fault, pre=pre or [], x=x)


def one(kind, ts, store=None, full=True):
    return dict(kind=kind, store=store or [], full=full, ts=ts)


SENDERR_DOWNLOADS = True       # write() repeatable after a transient send error since fix b4d915e


def gen_cases(rng, tier):
    cases = []
    lens = list(range(0, 65))
    # ---- downloads: every length x every way of writing
    for n in lens:
        for v in DL_VARIANTS:
            cases.append(one("dl_" + v, [T(dl_x(rng, n, v))]))
    # all compositions of the payload into write() calls, lengths <= 8, size declared or not
    for n in range(1, 9 if tier != "search" else 6):
        for comp in compositions(n):
            for sized in (False, True):
                if sized and n <= 4 and comp != [n]:
                    continue        # expedited raw stream offered less than size: write() returns 0 for ever
                x = dl_x(rng, n, "b0_nosize")
                x.update(writes=comp, size=n if sized else None)
                cases.append(one("dl_comp", [T(x)]))
            x = dl_x(rng, n, "b7_size")
            x.update(writes=comp)
            cases.append(one("dl_comp_b7", [T(x)]))
    # ---- uploads: every length x styles x ways of reading
    for n in lens:
        for si, st in enumerate(STYLES):
            variants = UL_VARIANTS if n in (0, 1, 3, 4, 5, 6, 7, 8, 13, 14, 15, 21, 64) else \
                [UL_VARIANTS[(n + si) % len(UL_VARIANTS)], UL_VARIANTS[(n + 3 * si + 1) % len(UL_VARIANTS)]]
            for v in variants:
                mux = rng.choice(MUXES)
                text = v.startswith("text")
                val = rdata(rng, n, text)
                if text:
                    val = [c for c in val]      # \n allowed, \r never generated
                cases.append(one("ul_" + v, [T(ul_x(rng, v, mux), st)], store=[[mux_key(*mux), val]]))
    # truncation to the dictionary size: every listed type x value lengths around the declared size x styles
    for odt in ODTS:
        sz = FIXED.get(odt, 1)
        for n in sorted({0, 1, sz - 1, sz, sz + 1, 4, 5, 8, 9} - {-1}):
            for st in (STYLES[0], STYLES[1], STYLES[2], STYLES[3], STYLES[4], STYLES[7]):
                mux = rng.choice(MUXES)
                cases.append(one("ul_trunc", [T(ul_x(rng, "upload", mux, odt), st)],
                                 store=[[mux_key(*mux), rdata(rng, n)]]))
    # the same through records and arrays: members listed one by one or synthesised from the sub-index 1 template
    for shape in ("rec", "arr_listed", "arr_template"):
        for dt in (0x05, 0x06, 0x03, 0x10, 0x07, 0x15, 0x09, 0x0C):
            sz = FIXED.get(dt, 1)
            for sub in ((0, 1, 2, 5, 255) if shape != "rec" else (0, 1, 7)):
                for n in sorted({sz, sz + 1, 4, 8, 9}):
                    for st in (STYLES[0], STYLES[1], STYLES[2], STYLES[3], STYLES[4]):
                        idx = rng.choice(MUXES)[0]
                        x = ul_x(rng, "upload", (idx, sub))
                        x.update(shape=shape, dt=dt)
                        cases.append(one("ul_trunc_" + shape, [T(x, st)], store=[[mux_key(idx, sub), rdata(rng, n)]]))
    # default buffering, read(n) close to the buffer size followed by read()
    for n, r in ((1100, -1023), (1100, -1020), (1030, -1024), (2100, -2047)):
        mux = rng.choice(MUXES)
        x = ul_x(rng, "b1024_all", mux)
        x.update(reads=r)
        cases.append(one("ul_b1024_mixed", [T(x, rng.choice(STYLES[:4]))], store=[[mux_key(*mux), rdata(rng, n)]], full=False))
    # missing object, and multiplexers out of struct range
    cases.append(one("ul_missing", [T(ul_x(rng, "upload", (0x2222, 2)))]))
    cases.append(one("ul_missing", [T(ul_x(rng, "b7_all", (0x2222, 2)))]))
    # multiplexers outside the struct range: no demand of the property, model and code must still agree
    for idx, sub in ((0x10000, 0), (0x2000, 256), (-1, 0), (0x2000, -1)):
        for v in ("download", "b0_nosize"):
            x = dl_x(rng, 3, v, mux=(0x2000, 0))
            x.update(idx=idx, sub=sub)
            cases.append(one("dl_badmux", [T(x), T(dl_x(rng, 5, "download", mux=(0x2000, 0)))]))
        x = ul_x(rng, "upload", (0x2000, 0))
        x.update(idx=idx, sub=sub)
        cases.append(one("ul_badmux", [T(x), T(dl_x(rng, 5, "download", mux=(0x2000, 0)))]))
    # ---- the server refuses the initiate download (abort) or does not answer it: nothing may follow on the bus
    #      (frames are recorded until the failed stream object has been dropped and collected)
    for n in (0, 1, 4, 5, 7, 8, 14, 15, 20):
        for v in ("download", "force", "b0_nosize", "b0_size", "b0_size_force", "b7_size", "b7_nosize", "b1024_nosize",
                  "b1024_size", "b1024_size_flush", "text"):
            mux = rng.choice(MUXES)
            m = [mux[0] & 255, mux[0] >> 8, mux[1]]
            code = rng.choice(([2, 0, 1, 6], [0, 0, 2, 6], [0, 0, 0, 8], [0x22, 0, 0, 8]))
            for f in (dict(f="replace", frames=[[0x80] + m + code]), dict(f="lost"), dict(f="lostreq")):
                ts = [T(dl_x(rng, n, v, mux=mux), fault=[0, f]),
                      T(dl_x(rng, rng.choice((3, 9)), "download", mux=mux)), T(ul_x(rng, "upload", mux))]
                cases.append(one("dl_refused_" + f["f"], ts, store=[[mux_key(*mux), rdata(rng, 2)]]))
    # ---- one transmit of a segment request fails with a transient can.CanError (the frame never leaves), the caller
    #      repeats the same raw read()/write(): the repeated frame must be the legal one for the still-current step and
    #      the transfer completes with the exact data (implementation + oracle only: the model's bus never raises)
    for n in (8, 14, 15, 22, 30):
        nseg = (n + 6) // 7
        for k in range(1, nseg + 1):
            mux = rng.choice(MUXES)
            for v, st in (("b0_r7", STYLES[0]), ("b0_r3", STYLES[1]), ("b0_r1", STYLES[3])):
                x = ul_x(rng, v, mux)
                x.update(senderr=k)
                c = one("ul_senderr", [T(x, st), T(ul_x(rng, "upload", mux))], store=[[mux_key(*mux), rdata(rng, n)]])
                c["model"] = False
                cases.append(c)
            if SENDERR_DOWNLOADS:
                for v in ("b0_nosize", "b0_size"):
                    x = dl_x(rng, n, v, mux=mux)
                    x.update(senderr=k)
                    c = one("dl_senderr", [T(x), T(ul_x(rng, "upload", mux))])
                    c["model"] = False
                    cases.append(c)
    # ---- back to back: 2..5 transfers on one client
    nseq = {"quick": 60, "thorough": 400, "search": 150}[tier]
    for _ in range(nseq):
        ts, store = [], []
        muxes = rng.sample(MUXES, 3)
        for m in muxes[:2]:
            store.append([mux_key(*m), rdata(rng, rng.choice((0, 2, 4, 5, 9, 20)))])
        for _ in range(rng.randint(2, 5)):
            m = rng.choice(muxes)
            r = rng.random()
            # now and then a frame is still in the response queue when the transfer starts (a late answer to
            # an earlier request): request_response discards it before it sends
            pre = [rng.choice(([0x60, 0, 0x20, 0, 0, 0, 0, 0], [0x00, 1, 2, 3, 4, 5, 6, 7], [0x43, 0, 0x20, 0, 1, 2, 3, 4],
                               [0x20, 0, 0, 0, 0, 0, 0, 0], [0x41, 0, 0x20, 0, 9, 0, 0, 0]))] if rng.random() < 0.25 else []
            if r < 0.45:
                n = rng.choice((0, 1, 3, 4, 5, 7, 8, 14, 15, rng.randrange(65)))
                ts.append(T(dl_x(rng, n, rng.choice(DL_VARIANTS[:9]), mux=m), pre=pre))
            elif r < 0.9:
                ts.append(T(ul_x(rng, rng.choice(UL_VARIANTS[:6]), m), rng.choice(STYLES), pre=pre))
            else:
                ts.append(T(dict(op="put", idx=m[0], sub=m[1], value=rdata(rng, rng.randrange(12)))))
        cases.append(one("seq", ts, store=store))
    # ---- back to back on one client, addresses that collide under a careless key (index << 8 + sub, index + sub,
    #      index | sub, index alone, index ^ sub, swapped bytes, 16-bit truncation), declared as numbers of different
    #      sizes: whatever the client remembers from one transfer must not decide the truncation of the next
    #      (added after seeded change C01-r6-2: a per-client cache of dictionary variables under such a key)
    for a, b in KEY_PAIRS:
        for ta, tb in ((0x05, 0x07), (0x07, 0x05), (0x06, None), (None, 0x06), (0x05, 0x09)):
            for st in (STYLES[0], STYLES[1], STYLES[3]):
                store = [[mux_key(*a), rdata(rng, 4)], [mux_key(*b), rdata(rng, rng.choice((4, 4, 6)))]]
                ts = [T(ul_x(rng, "upload", a, ta), st), T(ul_x(rng, "upload", b, tb), st),
                      T(ul_x(rng, "upload", a, ta), st), T(ul_x(rng, "upload", b, None), st)]
                if rng.random() < 0.5:
                    ts.reverse()
                cases.append(one("seq_keys", ts, store=store))
    # ---- long payloads at framing boundaries (thorough): traces compared by length only
    if tier == "thorough":
        big = sorted({7 * k + d for k in (10, 100, 1000, 1428) for d in (-1, 0, 1)} | {127 * 7, 127 * 7 + 1, 9999, 10000})
        for n in big:
            for v in ("download", "b0_nosize", "b1024_nosize", "b7_size"):
                cases.append(one("dl_big", [T(dl_x(rng, n, v))], full=False))
            for v, st in (("upload", STYLES[0]), ("raw", STYLES[1]), ("b1024_all", STYLES[3]), ("b7_r5", STYLES[8])):
                mux = rng.choice(MUXES)
                cases.append(one("ul_big", [T(ul_x(rng, v, mux), st)], store=[[mux_key(*mux), rdata(rng, n)]], full=False))
        for n in (65, 66, 69, 70, 71, 100, 127, 128, 255, 256, 889, 890, 1000):
            for v in DL_VARIANTS:
                cases.append(one("dl_" + v, [T(dl_x(rng, n, v))], full=n < 300))
            for si, st in enumerate(STYLES):
                mux = rng.choice(MUXES)
                v = UL_VARIANTS[(n + si) % len(UL_VARIANTS)]
                cases.append(one("ul_" + v, [T(ul_x(rng, v, mux), st)],
                                 store=[[mux_key(*mux), rdata(rng, n, v.startswith("text"))]], full=n < 300))
    return cases


def shrink(case):
    ts = case["ts"]
    if len(ts) > 1:
        for i in range(len(ts)):
            yield dict(case, ts=ts[:i] + ts[i + 1:])
    for i, t in enumerate(ts):
        x = t["x"]
        if x["op"] == "dl" and len(x["data"]) > 0 and x["via"] == "download":
            n = len(x["data"]) - 1
            yield dict(case, ts=ts[:i] + [dict(t, x=dict(x, data=x["data"][:n]))] + ts[i + 1:])


def neighbours(case, rng):
    out = []
    for t in case["ts"]:
        x = t["x"]
        if x["op"] == "dl":
            for n in {max(0, len(x["data"]) + d) for d in (-1, 0, 1)}:
                for v in ("download", "force", "b0_nosize"):
                    out.append(one("dl_" + v, [T(dl_x(rng, n, v, mux=(x["idx"], x["sub"])))]))
        elif x["op"] == "ul":
            for k, v in case["store"]:
                out.append(one("ul_upload", [T(ul_x(rng, "upload", (x["idx"], x["sub"]), x.get("odt")), t.get("style"))],
                               store=[[k, v]]))
    return out


# ---- histories with an abandoned (partly read) upload against the library's own server (oracle only) ----
from ref import libsrv_faults as _lib
_impl0, _oracle0, _gen0, _nontrivial0, _shrink0 = impl, oracle, gen_cases, nontrivial, shrink


def impl(c):
    return _lib.run_partial(c) if c.get("kind") == "libsrv_partial" else _impl0(c)


def oracle(c, o):
    return _lib.check_partial(c, o) if c.get("kind") == "libsrv_partial" else _oracle0(c, o)


def gen_cases(rng, tier):
    return _gen0(rng, tier) + _lib.gen_partial(rng, tier)


def nontrivial(c):
    return True if c.get("kind") == "libsrv_partial" else _nontrivial0(c)


def shrink(c):
    return [] if c.get("kind") == "libsrv_partial" else _shrink0(c)
