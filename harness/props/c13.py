"""C13 - SDO block upload returns exactly the server's data or fails visibly.

Closed system on both sides: (library BlockUploadStream + Python reference upload server of
harness/ref/block_server.py) vs (Model/BlockUl.v + Model/RefBlockServer.v), same fault list, complete
frame traces compared.  The oracle is plain comparison with the value the reference server holds plus the
server's own verdict (acknowledges exact, transfer closed, no protocol violation); it uses neither the model
nor the library.
"""
import logging
from vlib.obs import Err, Abort, guarded, canon_exc, gz, gzlist, gbool, glist, E_SDOCOMM
from ref import block_server as bs
from props.c12 import Obs, dview, lview, gfault, INDEX, _setup

PROP = "C13"
ANCHORS = [('canopen.sdo.client', 'BlockUploadStream'), ('canopen.sdo.client', 'SdoClient.request_response'), ('canopen.sdo.client', 'SdoClient.read_response'), ('canopen.sdo.base', 'CrcXmodem')]
MODEL_VO = ["theories/Model/BlockUl.vo"]
COQ_IMPORTS = "From CV Require Import Model.Crc Model.RefBlockServer Model.BlockDl Model.BlockUl."
COQ_RUN = "run_blockul"
COQ_CASE_TYPE = "ul_case"
RULE = ("cases = one block upload (value, client block size, client/server CRC capability, fault list) run as a closed "
        "system, or a crc_hqx tie case; non-trivial = a value of at least two segments or at least one fault; distinct by "
        "canonical JSON of the case; value lengths 1..60 and segment / block boundaries (889 = 127*7 +-1 ...) in quick, "
        "every length 1..1000 and boundaries to 10^4 in thorough; every single lost / bit-flipped segment position for "
        "sampled (quick) resp. all (thorough) configurations incl. values on which the CRC register stays 0; every bit "
        "of the end frame's command and CRC bytes; every server frame lost / aborted / duplicated (C07 part)")
EXHAUSTIVE = {"thorough": False}
EXPLANATION = ("long transfers are compared through a 61-bit hash of the trace; the thorough tier sweeps lengths "
               "1..1000 through implementation + oracle and a subset through the model")
TRUSTED = ["modelled, not verified: binascii.crc_hqx (Model/Crc.v crc_from, tied by CUCrc cases); io.BufferedReader.read() / "
           "RawIOBase.readall() (modelled by readall: read(n) until b''), tied by running cases through the buffered and "
           "the raw stream; queue.Queue time-out = empty list",
           "reference block upload server harness/ref/block_server.py (written from CiA 301), tied to its Gallina twin by "
           "the closed-system traces"]
ASSUMPTIONS = ["the peer answers synchronously: the wall-clock guard of BlockUploadStream._retransmit (while time.time() < end_time) "
               "never fires; its branch (abort 0x05040000) is not modelled",
               "wall-clock: real time-outs are replaced by 'queue empty'"]

TIMEOUT = 0.004


class _FrozenTime:
    """stand-in for the time module inside canopen.sdo.client: the clock stands still, sleep returns at once"""
    def time(self):
        return 1000.0

    def sleep(self, s):
        pass


_FROZEN = _FrozenTime()


def value_of(c):
    return bs.payload_of(c["zeros"], c["seed"], c["n"], c["lit"])


def run_ul(c):
    import canopen.sdo.client as cl
    od = _setup()
    value = value_of(c)
    srv = bs.RefBlockUlServer(value, c["crc_server"], c.get("size_ind", True))
    peer = bs.Faulty(srv, c["faults"])
    net = bs.make_net(peer)
    node = net.add_node(1, od)
    node.sdo.RESPONSE_TIMEOUT = TIMEOUT
    old = cl.BlockUploadStream.blksize
    cl.BlockUploadStream.blksize = c["blksize"]
    # The model assumes that the wall-clock guard of _retransmit (while time.time() < end_time) never fires
    # (ASSUMPTIONS): freeze the clock that canopen.sdo.client sees, so that a stalled process cannot take
    # that branch.  queue.Queue.get(timeout=...) has its own clock and still times out.
    old_time = cl.time
    cl.time = _FROZEN
    res = None
    try:
        ks = c.get("ks", [])
        if c["kind"] == "ulbuf":
            # the buffered reader that open() returns, with a small buffer: read(n) ... then read()
            with node.sdo.open(c["index"], c["sub"], "rb", buffering=c["buffering"], block_transfer=True,
                               request_crc_support=c["crc_client"]) as f:
                res = b""
                for n in c["reads"]:
                    res += f.read(n)
                res += f.read()
        elif ks:
            # raw stream: readinto() with small buffers, then read()
            with node.sdo.open(c["index"], c["sub"], "rb", buffering=0, block_transfer=True,
                               request_crc_support=c["crc_client"]) as f:
                res = b""
                for k in ks:
                    buf = bytearray(k)
                    got = f.readinto(buf)
                    res += bytes(buf[:got])
                res += f.read()
        elif c.get("via", "buffered") == "raw":
            with node.sdo.open(c["index"], c["sub"], "rb", buffering=0, block_transfer=True,
                               request_crc_support=c["crc_client"]) as f:
                res = f.read()
        else:
            with node.sdo.open(c["index"], c["sub"], "rb", block_transfer=True,
                               request_crc_support=c["crc_client"]) as f:
                res = f.read()
        res = bytes(res)
    except Exception as e:  # noqa: BLE001
        res = canon_exc(e)
    finally:
        cl.BlockUploadStream.blksize = old
        cl.time = old_time
    o = Obs([dview(c["full"], res) if isinstance(res, bytes) else res, bool(srv.ended), srv.bad, bool(srv.acks_exact),
             lview(c["full"], net.log)])
    o.detail = dict(log=list(net.log), data=res, srv=srv, peer=peer)
    return o


def impl(c):
    k = c["kind"]
    if k in ("ul", "ulbuf"):
        o = run_ul(c)
        # the wall-clock guard of _retransmit can only fire when the process was stalled for longer than
        # RESPONSE_TIMEOUT between two queue reads; that is not behaviour of the logic: run again
        for _ in range(3):
            r = o.detail["data"]
            if isinstance(r, Err) and "could not be retransmitted" in r.text:
                o = run_ul(c)
            else:
                break
        return o
    if k == "crc":
        from canopen.sdo.base import CrcXmodem
        def f():
            x = CrcXmodem()
            x._value = c["init"]
            d = bytes(c["data"])
            for i in range(0, len(d), 7):
                x.process(d[i:i + 7])
            return x.final()
        return guarded(f)
    raise ValueError(k)


# ------------------------------------------------------------------ oracle
def conformant_case(c):
    return c["zeros"] + c["n"] + len(c["lit"]) >= 1 and 1 <= c["blksize"] <= 127


def oracle(c, o):
    k = c["kind"]
    if k == "crc":
        exp = bs.crc16(bytes(c["data"]), c["init"])
        return None if o == exp else ("crc_hqx_differs", f"{o!r} != {exp:#x}")
    if k not in ("ul", "ulbuf") or not conformant_case(c):
        return None
    value = value_of(c)
    res, ended, bad, acks_exact, _ = o
    d = getattr(o, "detail", None)
    faults = c["faults"]
    what = (f"len={len(value)} blksize={c['blksize']} crc={int(c['crc_client'])}{int(c['crc_server'])} "
            f"size_ind={int(c.get('size_ind', True))} faults={faults}"
            + (f" readinto={c['ks']}" if c.get("ks") else "")
            + (f" buffering={c['buffering']} reads={c['reads']}" if k == "ulbuf" else ""))
    exp = dview(c["full"], value)
    is_err = isinstance(res, (Err, Abort))
    if not faults:
        if is_err:
            if not c["crc_client"] and c["crc_server"] and "CRC" in getattr(res, "text", ""):
                return ("upload_crc_not_negotiated_checked", f"{what}: undisturbed upload failed with {res!r} although the client did not ask for a CRC")
            return ("upload_undisturbed_failed", f"{what}: {res!r}")
        if res != exp:
            got = d["data"] if d else res
            return ("upload_undisturbed_wrong_data", f"{what}: returned {len(got) if isinstance(got, bytes) else got} bytes != value")
        if bad:
            return ("upload_protocol_violation", f"{what}: reference server saw protocol violation code {bad}")
        if not acks_exact:
            return ("upload_ack_wrong_seqno", f"{what}: an acknowledge did not carry the number of segments sent")
        if not ended:
            return ("upload_not_closed", f"{what}: the client did not send the end response")
        return None
    # disturbed: the property speaks about transfers with CRC negotiated and about what reaches the client
    if not (c["crc_client"] and c["crc_server"]):
        return None
    if any(f[0] == "dropc" for f in faults):
        return None          # lost client frames are outside the property text (model tie only)
    if is_err:
        if isinstance(res, Abort) or res.kind == E_SDOCOMM:
            return None
        return ("upload_disturbed_non_sdo_error", f"{what}: ended with {res!r}, not an SDO error")
    if res != exp:
        got = d["data"] if d else None
        if (not c.get("size_ind", True)) and isinstance(got, bytes) and bs.crc16(got) == bs.crc16(value):
            # No size was announced and the CRC of what came back equals the announced one (CRC-16/XMODEM with initial value 0
            # cannot see whole runs of zero bytes being added or removed).  If, in addition, the disturbance forged protocol
            # CONTROL information - a duplicated frame, a replaced frame, a corrupted command / sequence byte or unused-byte
            # count - nothing the client is ever told can reveal the difference; no client can do better, so nothing is
            # demanded.  Lost frames and corrupted DATA bytes stay demanded (sequence numbers resp. the CRC decide them).
            if any(f[0] in ("dups", "aborts") or (f[0] == "xors" and f[2] == 0) for f in faults):
                return None
        detail = f"{what}: returned normally {len(got) if isinstance(got, bytes) else '?'} bytes that differ from the value ({len(value)} bytes)"
        if len(faults) == 1 and faults[0][0] == "drops" and d is not None:
            # was the lost frame the last one the server sent before waiting (only a time-out reveals it)?
            burst_ends, j = set(), 1          # frame 1 = initiate response
            for b in d["srv"].bursts:
                j += b
                burst_ends.add(j)
            # server frames: 1 initiate response, then bursts of segments, at the very end the end response
            if faults[0][1] in burst_ends:
                return ("upload_timeout_loss_wrong_data", detail)
            return ("upload_loss_wrong_data", detail)
        if len(faults) == 1 and faults[0][0] == "xors":
            if d is not None and faults[0][1] == len(d["peer"].server_frames) and d["srv"].state == "idle" and faults[0][2] == 0:
                return ("upload_end_frame_wrong_length", detail)    # unused-byte count of the end frame corrupted
            return ("upload_corruption_wrong_data", detail)
        return ("upload_disturbed_wrong_data", detail)
    return None


def coq_case(c):
    k = c["kind"]
    if k == "ul":
        return (f"CUl {gbool(c['full'])} {gz(c['index'])} {gz(c['sub'])} {gz(c['blksize'])} {gbool(c['crc_client'])} "
                f"{gbool(c['crc_server'])} {gbool(c.get('size_ind', True))} {glist([gfault(f) for f in c['faults']])} "
                f"{gz(c['zeros'])} {gz(c['seed'])} {gz(c['n'])} {gzlist(c['lit'])} {gzlist(c.get('ks', []))}")
    if k == "crc":
        return f"CUCrc {gz(c['init'])} {gzlist(c['data'])}"
    raise ValueError(k)


def nontrivial(c):
    if c["kind"] == "crc":
        return len(c["data"]) > 0
    return c["zeros"] + c["n"] + len(c["lit"]) > 7 or bool(c["faults"])


# ------------------------------------------------------------------ generators
def ul(n, blksize=127, crc_client=True, crc_server=True, faults=(), zeros=0, seed=1, lit=(), via="buffered", full=None,
       index=INDEX, sub=0, model=True, size_ind=True, ks=()):
    total = zeros + n + len(lit)
    c = dict(kind="ul", full=(total <= 70 if full is None else full), index=index, sub=sub, blksize=blksize,
             crc_client=crc_client, crc_server=crc_server, size_ind=size_ind, faults=[list(f) for f in faults], zeros=zeros,
             seed=seed, n=n, lit=list(lit), via=via, ks=list(ks))
    if not model:
        c["model"] = False
    return c


def ulbuf(n, buffering, reads, blksize=127, crc_client=True, crc_server=True, faults=(), zeros=0, seed=1, size_ind=True):
    """io.BufferedReader(raw, buffer_size=buffering): read(k) for k in reads, then read(); implementation + oracle only"""
    total = zeros + n
    return dict(kind="ulbuf", full=total <= 70, index=INDEX, sub=0, blksize=blksize, crc_client=crc_client,
                crc_server=crc_server, size_ind=size_ind, faults=[list(f) for f in faults], zeros=zeros, seed=seed, n=n,
                lit=[], buffering=buffering, reads=list(reads), model=False)


def nframes(total, blksize):
    """(segments, server frames) of an undisturbed upload"""
    nseg = (total + 6) // 7
    return nseg, nseg + 2


def boundaries(top):
    s = set()
    for m in (1, 2, 126, 127, 128, 254):
        s.update((7 * m - 1, 7 * m, 7 * m + 1))
    k = 1
    while 889 * k - 1 <= top:
        s.update((889 * k - 1, 889 * k, 889 * k + 1))
        k += 1 if k < 3 else 4
    return sorted(x for x in s if 1 <= x <= top)


def gen_cases(rng, tier):
    cases = []
    quick = tier != "thorough"
    crcs = [(True, True), (True, False), (False, True), (False, False)]
    rs = lambda: rng.randrange(1 << 31)
    for _ in range(10 if quick else 100):
        n = rng.choice([0, 1, 6, 7, 8, 14, rng.randint(0, 64)])
        cases.append(dict(kind="crc", init=rng.choice([0, rng.randrange(65536)]), data=[rng.randrange(256) for _ in range(n)]))
    # ---- undisturbed
    top = 60 if quick else 200
    for n in range(1, top + 1):
        cc, sc = crcs[n % 4]
        cases.append(ul(n, 127, True, True, seed=rs(), via=("raw" if n % 3 == 0 else "buffered")))
        cases.append(ul(n, rng.choice([1, 2, 3, 5, 7, 8, 126, rng.randint(1, 127)]), cc, sc, seed=rs()))
        cases.append(ul(n, rng.choice([127, 127, rng.randint(1, 127)]), *crcs[(n + 1) % 4], seed=rs(), size_ind=False,
                        via=("raw" if n % 4 == 0 else "buffered")))
    for n in boundaries(2700 if quick else 10000):
        if n > 60:
            cases.append(ul(n, 127, *rng.choice(crcs), seed=rs(), via=rng.choice(["raw", "buffered"])))
            cases.append(ul(n, rng.choice([1, 7, 126, 100]), True, True, seed=rs(), size_ind=(n % 2 == 0)))
    cases.append(ul(0, 127, zeros=100))
    cases.append(ul(0, 3, zeros=50, crc_client=False, crc_server=True))
    cases.append(ul(20, 127, False, True, seed=7))
    cases.append(ul(3, 2, lit=[255, 0, 128], index=0x1F50, sub=1))
    if not quick:
        for n in list(range(201, 1001)) + [7 * m + d for m in range(143, 1430, 10) for d in (-1, 0, 1)] + [9999, 10000, 10001]:
            cases.append(ul(n, rng.choice([127, 127, rng.randint(1, 127)]), *rng.choice(crcs), seed=rs(), model=False,
                            via=rng.choice(["raw", "buffered"])))
    # ---- every single lost / bit-flipped segment position; values with zeros keep the CRC register at 0
    confs = [(30, 127, 0), (100, 127, 0), (0, 127, 100), (10, 127, 40), (50, 4, 0), (0, 3, 60), (900, 127, 0), (0, 127, 1000)]
    if not quick:
        confs += [(200, 127, 0), (200, 5, 0), (0, 127, 2000), (1800, 127, 0), (30, 1, 0), (0, 2, 50), (60, 7, 14), (2000, 100, 0)]
    for n, blksize, zeros in confs:
        nseg, nsf = nframes(n + zeros, blksize)
        for s in range(1, nseg + 1):
            if quick and nseg > 12 and s not in (1, 2, nseg - 1, nseg, 126, 127, 128) and rng.random() < 0.8:
                continue
            if not quick and nseg > 60 and s not in (1, 2, nseg - 1, nseg, 126, 127, 128, 253, 254, 255) and rng.random() < 0.6:
                continue
            j = s + 1
            via = "raw" if s % 5 == 0 else "buffered"
            si = lambda: rng.random() < 0.6          # size announced by the server or not (both are conformant)
            cases.append(ul(n, blksize, faults=[["drops", j]], zeros=zeros, seed=rs(), via=via, size_ind=si()))
            cases.append(ul(n, blksize, faults=[["xors", j, rng.randint(1, 7), 1 << rng.randint(0, 7)]], zeros=zeros, seed=rs(),
                            size_ind=si()))
            cases.append(ul(n, blksize, faults=[["xors", j, 0, 1 << rng.randint(0, 7)]], zeros=zeros, seed=rs(), size_ind=si()))
            if s % 4 == 1 or not quick:
                cases.append(ul(n, blksize, faults=[["dups", j]], zeros=zeros, seed=rs(), size_ind=si()))
                cases.append(ul(n, blksize, *rng.choice(crcs[1:]), faults=[["drops", j]], zeros=zeros, seed=rs(), size_ind=si()))
    # all 64 bit positions of one segment
    for n, s in ((30, 2), (30, 5)):
        for byte in range(8):
            for bit in range(8):
                cases.append(ul(n, 127, faults=[["xors", s + 1, byte, 1 << bit]], seed=rs(), size_ind=(s == 2)))
    # one flipped data bit / a wrong checksum against a server that does not announce the size (s=0) but supports the
    # CRC (sc=1): only the CRC stands between the corruption and the caller
    for n in (5, 20, 100, 1000):
        nseg = (n + 6) // 7
        for s in sorted({1, 2, nseg // 2 + 1, nseg - 1, nseg} & set(range(1, nseg + 1))):
            cases.append(ul(n, 127, faults=[["xors", s + 1, 1, 0x10]], seed=rs(), size_ind=False))
        cases.append(ul(n, 127, faults=[["xors", nseg + 2, 1, 0x01]], seed=rs(), size_ind=False))
        cases.append(ul(n, 127, faults=[["xors", nseg + 2, 2, 0x80]], seed=rs(), size_ind=False))
    # ---- corrupted data whose CRC-16 differs from the right one in ONE byte only (a comparison of half the CRC misses
    #      it).  By linearity the difference depends only on the position of the flipped bit, not on the data.
    found = {"low": [], "high": []}
    for n in range(8, 120):
        for off in range(n):
            for bit in range(8):
                e = bytearray(n)
                e[off] = 1 << bit
                d = bs.crc16(bytes(e))
                if d & 0xFF == 0:
                    found["low"].append((n, off, bit))
                elif d >> 8 == 0:
                    found["high"].append((n, off, bit))
        if len(found["low"]) >= 3 and len(found["high"]) >= 3:
            break
    for kind in ("low", "high"):
        for n, off, bit in found[kind][:(2 if quick else 6)]:
            cases.append(ul(n, 127, faults=[["xors", off // 7 + 2, off % 7 + 1, 1 << bit]], seed=rs(), size_ind=(bit % 2 == 0)))
    # ---- wrong CRC, wrong end frame: every bit of the end frame's command and CRC bytes; initiate response bits
    for n, blksize, zeros in ((10, 127, 0), (33, 127, 0), (35, 4, 0), (0, 127, 10), (5, 127, 14)):
        nseg, nsf = nframes(n + zeros, blksize)
        for byte in (0, 1, 2):
            for bit in range(8):
                cases.append(ul(n, blksize, faults=[["xors", nsf, byte, 1 << bit]], zeros=zeros, seed=rs()))
                cases.append(ul(n, blksize, faults=[["xors", nsf, byte, 1 << bit]], zeros=zeros, seed=rs(), size_ind=False))
                if byte == 0 or bit < 2:
                    cases.append(ul(n, blksize, faults=[["xors", 1, byte + (3 if byte else 0), 1 << bit]], zeros=zeros, seed=rs()))
        cases.append(ul(n, blksize, faults=[["xors", nsf, 1, 0xFF], ["xors", nsf, 2, 0xFF]], zeros=zeros, seed=rs()))
        for j in (1, nsf):
            for f in (["drops", j], ["aborts", j, 0x08000000], ["aborts", j, 0x06020000], ["dups", j]):
                cases.append(ul(n, blksize, faults=[f], zeros=zeros, seed=rs()))
        for s in range(1, nseg + 1):
            cases.append(ul(n, blksize, faults=[["aborts", s + 1, 0x05040003]], zeros=zeros, seed=rs()))
    # ---- seeded multi-loss / mixed
    for _ in range(60 if quick else 600):
        n = rng.randint(1, 200)
        blksize = rng.choice([127, 127, rng.randint(1, 20)])
        nseg, nsf = nframes(n, blksize)
        fs = []
        for _ in range(rng.randint(2, 4)):
            t = rng.choice(["drops", "drops", "dups", "xors", "aborts"])
            j = rng.randint(1, nsf + 3)
            fs.append({"drops": ["drops", j], "dups": ["dups", j],
                       "xors": ["xors", j, rng.randint(0, 7), 1 << rng.randint(0, 7)],
                       "aborts": ["aborts", j, rng.choice([0x05040000, 0x06090011])]}[t])
        z = rng.choice([0, 0, n])
        cases.append(ul(n - z, blksize, *(rng.choice(crcs) if rng.random() < 0.3 else (True, True)), faults=fs, zeros=z, seed=rs()))
    # ---- other callers of the same stream (undisturbed unless noted): readinto() with buffers smaller than a segment and
    #      then read(); the buffered reader of open(buffering=k) with read(n) ... read()
    lens = list(range(1, 25 if quick else 101)) + [888, 889, 890, 893]
    for n in lens:
        nseg, lastlen = (n + 6) // 7, n - 7 * ((n - 1) // 7)
        pats = [[h] for h in (1, 2, 4, 9)] + [[7] * (nseg - 1) + [k] for k in range(1, lastlen)]
        if n <= 20:
            pats += [[1] * (n - 1), [1] * (n + 2), [3] * ((n + 2) // 3), [6, 1] * nseg]
        pats.append([rng.randint(1, 9) for _ in range(rng.randint(1, 2 * nseg))][:40])
        if quick and n > 12:
            pats = rng.sample(pats, min(len(pats), 3)) + ([pats[4 + lastlen // 2]] if lastlen > 1 else [])
        if n > 100:
            pats = [[7] * (nseg - 1) + [k] for k in {1, max(1, lastlen - 1)} if k < lastlen] + [[2], [9, 9, 1]]
        for ks in pats:
            cc, sc = rng.choice(crcs)
            cases.append(ul(n, rng.choice([127, 127, 3]), cc, sc, seed=rs(), ks=ks, size_ind=rng.random() < 0.7))
        for buffering, reads in ((2, [1]), (3, [2]), (4, [2]), (5, [1, 3]), (6, [5]), (7, [3, 3]), (8, [n - 1] if n > 1 else [1]),
                                 (16, [9]), (4, [2, 2, 2]), (1024, [2])):
            if quick and rng.random() < 0.6 and n not in (7, 8, 13, 14, 15, 889, 890):
                continue
            cc, sc = rng.choice(crcs)
            cases.append(ulbuf(n, buffering, reads, rng.choice([127, 127, 2]), cc, sc, seed=rs(), size_ind=rng.random() < 0.7))
    for n in (10, 30, 60):                     # the same callers on a disturbed transfer
        nseg = (n + 6) // 7
        for s in range(1, nseg + 1):
            cases.append(ul(n, 127, faults=[["drops", s + 1]], seed=rs(), ks=[2, 9, 1]))
            cases.append(ul(n, 127, faults=[["xors", s + 1, 2, 4]], seed=rs(), ks=[7] * (nseg - 1) + [1], size_ind=False))
            cases.append(ulbuf(n, 4, [2], faults=[["xors", s + 1, 3, 1]], seed=rs(), size_ind=(s % 2 == 0)))
    # ---- lost client frames (outside the property text: model tie only)
    for n, blksize in ((10, 127), (30, 2), (40, 3)):
        nseg, nsf = nframes(n, blksize)
        for k in range(1, 3 + (nseg + blksize - 1) // blksize + 2):
            cases.append(ul(n, blksize, faults=[["dropc", k]], seed=rs()))
    if tier == "search":
        cases = [c for c in cases if c["kind"] in ("ul", "ulbuf")]
    rng.shuffle(cases)        # spread the long transfers over the model-evaluation chunks
    return cases


def shrink(c):
    if c["kind"] != "ul":
        return
    if len(c["faults"]) > 1:
        for i in range(len(c["faults"])):
            yield dict(c, faults=c["faults"][:i] + c["faults"][i + 1:])
    for key in ("n", "zeros"):
        for v2 in (c[key] // 2, c[key] - 7, c[key] - 1):
            if 0 <= v2 < c[key]:
                c2 = dict(c, **{key: v2})
                t2 = c2["zeros"] + c2["n"] + len(c2["lit"])
                if t2 >= 1:
                    yield dict(c2, full=t2 <= 70)
    if c.get("via") == "raw":
        yield dict(c, via="buffered")


def neighbours(c, rng):
    if c["kind"] != "ul":
        return
    for d in (-7, -1, 1, 7):
        n2 = c["n"] + d
        if n2 >= 0 and c["zeros"] + n2 + len(c["lit"]) >= 1:
            t2 = c["zeros"] + n2 + len(c["lit"])
            yield dict(c, n=n2, full=t2 <= 70)
    for b in (1, 2, 127):
        yield dict(c, blksize=b)
