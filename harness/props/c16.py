"""C16 - the EMCY consumer's log and active list mirror the received history; producer/consumer
round trip; CiA 301 error class descriptions; wait selection."""
import logging
import threading
import time

from vlib.obs import S, Err, guarded, gz, gzlist, gopt

PROP = "C16"
MODEL_VO = ["theories/Model/Emcy.vo"]
COQ_IMPORTS = "From CV Require Import Model.Emcy."
COQ_RUN = "run_emcy"
COQ_CASE_TYPE = "emcy_case"
RULE = ("cases = operation histories on an EmcyConsumer (8-byte EMCY frames with injected integer timestamps, "
        "add_callback, consumer reset, and a malformed stream of frames of 0..7 / 9..12 bytes), driven either by "
        "on_emcy directly or through Network.notify into a RemoteNode, the state (log, active, callback log) observed "
        "after every operation; producer frames (send / reset) for codes and registers at and beyond the field ends and "
        "data of 0..8 bytes; producer -> network -> consumer round trips, single messages and sequences of 2..6 messages from one "
        "producer object with mostly decreasing data lengths; get_desc on single codes (through the model) and "
        "as run-length sweeps over all 65536 codes (oracle only); EmcyConsumer.wait with and without a code filter while a "
        "second thread feeds frames (1..3 frames per wake-up, sometimes frames between two iterations of the loop, sometimes the "
        "deadline of the call passing - on a scripted clock - while frames keep arriving). Codes are biased to the class boundaries 0x0000 0x00FF 0x0100 0x1000 0x10FF 0x1100 ... "
        "0xF000 0xF0FF 0xF100 0xFF00 0xFFFF and to reset / near-reset codes. Non-trivial = a history with at least one "
        "well-formed frame, any producer / round-trip / description case, a wait with at least one arrival; distinct by "
        "canonical JSON of the case")
EXHAUSTIVE = {"quick": False, "thorough": False}
EXPLANATION = ("not exhaustive as a whole: histories, producer arguments and waits are sampled. Only the description sub-space is "
               "enumerated completely: all 65536 codes through the oracle in both tiers (and proved for all 65536 codes in Coq)")
TRUSTED = ["modelled, not verified: CPython struct.Struct('<HB5s') pack/unpack (range errors, zero padding and truncation of "
           "'5s'), tied by correspondence",
           "not modelled: threading.Condition, thread scheduling and time.time() in EmcyConsumer.wait; the model takes the "
           "wake-up schedule as an input and the harness realises given schedules (frames per wake-up, frames between two "
           "iterations, the wake-up at which the deadline has passed) with a feeder thread; canopen.emcy's `time` is replaced "
           "by a scripted clock during a wait case, Condition.wait(timeout) keeps the real clock"]
ASSUMPTIONS = ["timestamps are the integers injected by the case (the library passes them through untouched)",
               "wait: the wake-up schedule (which frames are seen by which wake-up, which wake-up is late) is an input of the "
               "model; C16_wait_next_match holds for every schedule"]

logging.disable(logging.CRITICAL)

NODE = 5
WAIT_TIMEOUT = 0.2
BURST_SIG = "wait_burst_skips_match"      # fixed in /repo by 435c8a8 (wait looked only at log[-1])
RESET_SIG = "wait_not_woken_by_reset"     # an error-reset frame does not wake the waiting caller
DEADLINE_SIG = "wait_ignores_deadline"    # an entry logged after the deadline of the call is handed out
GAP_SIG = "wait_gap_skips_match"          # fixed in /repo by 435c8a8 (frame logged between two iterations of the loop)
ANCHORS = [("canopen.emcy", "EmcyConsumer.on_emcy"), ("canopen.emcy", "EmcyConsumer.wait"),
           ("canopen.emcy", "EmcyConsumer.reset"), ("canopen.emcy", "EmcyProducer.send"),
           ("canopen.emcy", "EmcyProducer.reset"), ("canopen.emcy", "EmcyError.get_desc")]


# ------------------------------------------------------------------ the oracle's own statement of CiA 301
# emergency error classes by code range (CiA 301 table "emergency error code classes"; class names
# in the wording this library uses for them) -- written by hand, not read from the library
CLASSES = [
    (0x0000, 0x00FF, "Error Reset / No Error"),
    (0x1000, 0x10FF, "Generic Error"),
    (0x2000, 0x2FFF, "Current"),
    (0x3000, 0x3FFF, "Voltage"),
    (0x4000, 0x4FFF, "Temperature"),
    (0x5000, 0x50FF, "Device Hardware"),
    (0x6000, 0x6FFF, "Device Software"),
    (0x7000, 0x70FF, "Additional Modules"),
    (0x8000, 0x8FFF, "Monitoring"),
    (0x9000, 0x90FF, "External Error"),
    (0xF000, 0xF0FF, "Additional Functions"),
    (0xFF00, 0xFFFF, "Device Specific"),
]


def cia301_class(code):
    for lo, hi, name in CLASSES:
        if lo <= code <= hi:
            return name
    return ""


def is_reset_frame(code):
    """CiA 301: error class 00xx = error reset or no error."""
    return 0 <= code <= 0xFF


def frame_fields(f, ts):
    """What an 8-byte EMCY frame means (CiA 301 7.2.7): bytes 0-1 error code (little endian),
    byte 2 error register, bytes 3-7 manufacturer specific."""
    return [f[0] + 256 * f[1], f[2], bytes(f[3:8]), ts]


def rle(strings, start):
    runs = []
    for i, s in enumerate(strings):
        if runs and runs[-1][2] == s:
            runs[-1][1] = start + i
        else:
            runs.append([start + i, start + i, s])
    return runs


# ------------------------------------------------------------------ implementation runners
def canon_entry(e):
    from canopen.emcy import EmcyError
    if not isinstance(e, EmcyError):
        return S("not an EmcyError: " + repr(e)[:40])
    d = e.data
    return [e.code, e.register, bytes(d) if isinstance(d, (bytes, bytearray)) else S(repr(d)[:40]), e.timestamp]


def _net():
    import canopen

    class Net(canopen.Network):
        def __init__(self):
            super().__init__()
            self.sent = []
            self.ts = 0

        def send_message(self, can_id, data, remote=False):
            self.sent.append((can_id, bytes(data)))
            self.notify(can_id, bytearray(data), self.ts)

    return Net()


def _snapshot(cons, cblog):
    return [[canon_entry(e) for e in cons.log], [canon_entry(e) for e in cons.active], [list(x) for x in cblog]]


def run_hist(c):
    import canopen
    from canopen.emcy import EmcyConsumer
    cblog = []
    if c["via"] == "net":
        net = _net()
        node = canopen.RemoteNode(NODE, canopen.ObjectDictionary())
        node.associate_network(net)
        cons = node.emcy
        deliver = lambda f, ts: net.notify(0x80 + NODE, bytearray(f), ts)
    else:
        cons = EmcyConsumer()
        deliver = lambda f, ts: cons.on_emcy(0x80 + NODE, bytes(f), ts)
    ncb = [0]

    def add_cb():
        i = ncb[0]
        ncb[0] += 1
        cons.add_callback(lambda e, i=i: cblog.append([i, canon_entry(e)]))

    for _ in range(c["ncb"]):
        add_cb()
    out = []
    for op in c["ops"]:
        if op[0] == "f":
            r = guarded(lambda: deliver(op[1], op[2]))
            out.append(r if isinstance(r, Err) else _snapshot(cons, cblog))
        elif op[0] == "cb":
            add_cb()
            out.append(_snapshot(cons, cblog))
        elif op[0] == "reset":
            r = guarded(cons.reset)
            out.append(r if isinstance(r, Err) else _snapshot(cons, cblog))
        else:
            raise ValueError(op)
    return out


def run_prod(c):
    from canopen.emcy import EmcyProducer
    net = _net()
    p = EmcyProducer(0x80 + NODE)
    p.network = net

    def f():
        if c["kind"] == "prod":
            p.send(c["code"], c["reg"], bytes(c["data"]))
        else:
            p.reset(c["reg"], bytes(c["data"]))
        if len(net.sent) == 1 and net.sent[0][0] == 0x80 + NODE:
            return net.sent[0][1]
        return [[cid, fr] for cid, fr in net.sent]       # anything else is reported as it is
    return guarded(f)


def run_round(c):
    import canopen
    net = _net()
    od = canopen.ObjectDictionary()
    remote = canopen.RemoteNode(NODE, od)
    remote.associate_network(net)
    local = canopen.LocalNode(NODE, od)
    local.associate_network(net)
    cblog = []
    remote.emcy.add_callback(lambda e: cblog.append([0, canon_entry(e)]))
    net.ts = c["ts"]

    def f():
        local.emcy.send(c["code"], c["reg"], bytes(c["data"]))
        fr = net.sent[0][1] if len(net.sent) == 1 else [[cid, x] for cid, x in net.sent]
        return [fr, _snapshot(remote.emcy, cblog)]
    return guarded(f)


def run_prod_seq(c):
    """one LocalNode producer, several messages, into one RemoteNode consumer (message i at timestamp ts + i)"""
    import canopen
    net = _net()
    od = canopen.ObjectDictionary()
    remote = canopen.RemoteNode(NODE, od)
    remote.associate_network(net)
    local = canopen.LocalNode(NODE, od)
    local.associate_network(net)
    cblog = []
    remote.emcy.add_callback(lambda e: cblog.append([0, canon_entry(e)]))
    out = []
    for i, m in enumerate(c["msgs"]):
        net.ts = c["ts"] + i
        n0 = len(net.sent)

        def f():
            if m[0] == "send":
                local.emcy.send(m[1], m[2], bytes(m[3]))
            else:
                local.emcy.reset(m[1], bytes(m[2]))
            new = net.sent[n0:]
            if len(new) == 1 and new[0][0] == 0x80 + NODE:
                return new[0][1]
            return [[cid, fr] for cid, fr in new]
        out.append(guarded(f))
    out.append(_snapshot(remote.emcy, cblog))
    return out


def run_desc(c):
    from canopen.emcy import EmcyError
    return guarded(lambda: S(EmcyError(c["code"], 0, b"", 0).get_desc()))


def run_desc_sweep(c):
    from canopen.emcy import EmcyError

    def f():
        strs = [EmcyError(code, 0, b"", 0).get_desc() for code in range(c["lo"], c["hi"] + 1)]
        return [[a, b, S(s)] for a, b, s in rle(strs, c["lo"])]
    return guarded(f)


def _blocked(cons, th, limit=2.0):
    """Wait until the waiting thread sits in emcy_received.wait() (or has finished).
    Uses the waiter queue of threading.Condition (CPython); falls back to a pause."""
    cond = cons.emcy_received
    t0 = time.monotonic()
    while th.is_alive() and time.monotonic() - t0 < limit:
        w = getattr(cond, "_waiters", None)
        if w is None:
            time.sleep(0.01)
            return th.is_alive()
        if len(w) > 0:
            return True
        time.sleep(0.0002)
    return False


class _GapCondition:
    """Stands in for EmcyConsumer.emcy_received (a public attribute) to realise the schedule "a frame is logged
    right after the waiter has looked at the log and found no match, before it waits again".
      * a wait() whose loop releases the lock between two iterations (`with` inside `while`): when the waiting
        thread leaves its `with` block the pending frames are logged before it can enter the block again (as if
        the feeding thread had won the lock);
      * a wait() that keeps the lock between iterations: the waiting thread calls wait() again with the frames
        still pending; a helper thread then logs them, which it can only do once the waiter has released the
        lock inside Condition.wait(), so they are seen by the next wake-up."""

    def __init__(self):
        self.c = threading.Condition()
        self.waiter = None
        self.pending = None
        self.helpers = []
        self.clock = None

    def __enter__(self):
        return self.c.__enter__()

    def __exit__(self, *a):
        r = self.c.__exit__(*a)
        if self.pending is not None and threading.current_thread() is self.waiter:
            f, self.pending = self.pending, None
            f()
        return r

    def wait(self, timeout=None):
        if self.pending is not None and threading.current_thread() is self.waiter:
            f, self.pending = self.pending, None
            t = threading.Thread(target=f, daemon=True)
            self.helpers.append(t)
            t.start()
        r = self.c.wait(timeout)
        if not r and self.clock is not None and timeout is not None:
            # Condition.wait really ran into its time-out: that much time has passed on the caller's clock
            self.clock.now += timeout + 0.001
        return r

    def notify_all(self):
        self.c.notify_all()

    def notify(self, n=1):
        self.c.notify(n)

    @property
    def _waiters(self):
        return self.c._waiters


def case_gaps(c):
    g = c.get("gaps") or []
    return [g[i] if i < len(g) else [] for i in range(len(c["wakes"]))]


class _Clock:
    """Stands in for the `time` module inside canopen.emcy while a wait case runs: time() is a scripted clock that
    stands still until the case moves it past the deadline, so the deadline test of wait() does not depend on the
    machine's speed.  (Condition.wait(timeout) itself keeps using the real clock.)"""

    def __init__(self):
        self.now = 1000.0

    def time(self):
        return self.now

    def __getattr__(self, name):
        return getattr(time, name)


def run_wait_once(c):
    import canopen.emcy as emcy_mod
    cons = emcy_mod.EmcyConsumer()
    gaps = case_gaps(c)
    late_at = c.get("late_at")
    # the instrumented condition is used for every wait case: it passes everything on to a real Condition, moves the
    # scripted clock when Condition.wait really times out, and realises the hand-over schedules (gaps)
    gc = cons.emcy_received = _GapCondition()
    for f, ts in c["pre"]:
        cons.on_emcy(0x80 + NODE, bytes(f), ts)
    box = {}
    clock = gc.clock = _Clock()
    had_time = hasattr(emcy_mod, "time")
    real_time = getattr(emcy_mod, "time", None)
    emcy_mod.time = clock

    def waiter():
        box["r"] = guarded(lambda: cons.wait(c["filt"], WAIT_TIMEOUT))

    th = threading.Thread(target=waiter, daemon=True)
    gc.waiter = th
    slow = False

    def log_frames(frames):
        # all of them under the consumer's condition: one wake-up sees the whole lot
        with cons.emcy_received:
            for f, ts in frames:
                cons.on_emcy(0x80 + NODE, bytes(f), ts)

    try:
        th.start()
        logged = len(c["pre"])
        for i, (batch, gap) in enumerate(zip(c["wakes"], gaps)):
            if not _blocked(cons, th):
                break
            t1 = time.monotonic()
            if late_at is not None and i == late_at:
                clock.now += WAIT_TIMEOUT + 1.0          # the deadline of the call passes before these frames arrive
            if gap:
                gc.pending = lambda gap=gap: log_frames(gap)
            log_frames(batch)
            logged += len(batch) + len(gap)
            if time.monotonic() - t1 > WAIT_TIMEOUT / 2:
                slow = True       # the waiter may have run into Condition.wait's own (real) time-out meanwhile
            if gap:
                # the gap frames are logged by the waiting thread's hook or by the helper; wait for them
                t1 = time.monotonic()
                while len(cons.log) < logged and time.monotonic() - t1 < 2.0:
                    time.sleep(0.0002)
        th.join(10)
        if th.is_alive():
            return Err(9, "wait did not return"), False
        for t in gc.helpers:
            t.join(2)
    finally:
        if had_time:
            emcy_mod.time = real_time
        else:
            del emcy_mod.time
    r = box.get("r")
    if isinstance(r, Err) or r is None:
        return r, slow
    return canon_entry(r), slow


def run_wait(c):
    # a run in which the feeder was held up for more than half of Condition.wait's time-out is repeated
    for _ in range(4):
        r, slow = run_wait_once(c)
        if not slow:
            break
    return r


def impl(c):
    k = c["kind"]
    if k == "hist": return guarded(run_hist, c)
    if k in ("prod", "prod_reset"): return run_prod(c)
    if k == "round": return run_round(c)
    if k == "prod_seq": return guarded(run_prod_seq, c)
    if k == "desc": return run_desc(c)
    if k == "desc_sweep": return run_desc_sweep(c)
    if k == "wait": return guarded(run_wait, c)
    raise ValueError(k)


# ------------------------------------------------------------------ oracle
def expected_hist(c):
    """Independent statement of the property on a history; returns the expected snapshot after
    each operation, up to (excluding) the first malformed frame (for which the property says nothing)."""
    log, active, cblog = [], [], []
    ncb = c["ncb"]
    out = []
    for op in c["ops"]:
        if op[0] == "f":
            f, ts = op[1], op[2]
            if len(f) != 8:
                break
            e = frame_fields(f, ts)
            log.append(e)
            if is_reset_frame(e[0]):
                active = []
            else:
                active.append(e)
            for i in range(ncb):
                cblog.append([i, e])
        elif op[0] == "cb":
            ncb += 1
        elif op[0] == "reset":
            log, active = [], []
        out.append([list(log), list(active), list(cblog)])
    return out


def _fmt_entry(e):
    if isinstance(e, list) and len(e) == 4 and isinstance(e[2], (bytes, bytearray)):
        return f"(0x{e[0]:04X}, {e[1]}, {bytes(e[2]).hex()}, ts={e[3]})" if isinstance(e[0], int) else repr(e)
    return repr(e)


def oracle(c, o):
    k = c["kind"]
    if k == "hist":
        exp = expected_hist(c)
        if isinstance(o, Err):
            return ("hist_raised", f"history raised {o!r}") if exp else None
        for i, want in enumerate(exp):
            got = o[i] if i < len(o) else None
            if got == want:
                continue
            if isinstance(got, Err) or got is None:
                return ("frame_rejected", f"step {i} {c['ops'][i]!r}: {got!r}")
            for name, j in (("log", 0), ("active", 1), ("callbacks", 2)):
                if got[j] != want[j]:
                    return (f"{name}_wrong", f"after step {i} ({c['ops'][i]!r}) {name} is "
                            f"[{', '.join(_fmt_entry(x) for x in got[j])}], expected "
                            f"[{', '.join(_fmt_entry(x) for x in want[j])}]")
        return None
    if k in ("prod", "prod_reset"):
        code = c["code"] if k == "prod" else 0
        reg, data = c["reg"], c["data"]
        if 0 <= code < 65536 and 0 <= reg < 256 and len(data) <= 5:
            want = bytes([code & 255, code >> 8, reg] + data + [0] * (5 - len(data)))
            if o != want:
                return ("producer_frame_wrong", f"{k} code=0x{code:04X} reg={reg} data={bytes(data).hex()}: sent {o!r}, "
                        f"expected one frame {want.hex()} on 0x{0x80 + NODE:X}")
        return None
    if k == "round":
        code, reg, data, ts = c["code"], c["reg"], c["data"], c["ts"]
        if 0 <= code < 65536 and 0 <= reg < 256 and len(data) <= 5:
            e = [code, reg, bytes(data + [0] * (5 - len(data))), ts]
            want_state = [[e], [] if is_reset_frame(code) else [e], [[0, e]]]
            if isinstance(o, Err) or o[1] != want_state:
                return ("roundtrip_wrong", f"send(0x{code:04X}, {reg}, {bytes(data).hex()}) at ts={ts}: consumer state "
                        f"{o!r}, expected {want_state!r}")
        return None
    if k == "prod_seq":
        log, active = [], []
        if isinstance(o, Err):
            return ("producer_frame_wrong", f"sequence raised {o!r}")
        for i, m in enumerate(c["msgs"]):
            code, reg, data = (m[1], m[2], m[3]) if m[0] == "send" else (0, m[1], m[2])
            if not (0 <= code < 65536 and 0 <= reg < 256 and len(data) <= 5):
                return None              # the property says nothing about such a call (nor about what follows it)
            want = bytes([code & 255, code >> 8, reg] + data + [0] * (5 - len(data)))
            if o[i] != want:
                return ("producer_frame_wrong", f"message {i} of one producer {m!r} (after {c['msgs'][:i]!r}): sent {o[i]!r}, "
                        f"expected one frame {want.hex()} on 0x{0x80 + NODE:X}")
            e = [code, reg, bytes(data + [0] * (5 - len(data))), c["ts"] + i]
            log.append(e)
            active = [] if is_reset_frame(code) else active + [e]
        want_state = [log, active, [[0, e] for e in log]]
        if o[-1] != want_state:
            return ("roundtrip_wrong", f"messages {c['msgs']!r}: consumer state {o[-1]!r}, expected {want_state!r}")
        return None
    if k == "desc":
        if 0 <= c["code"] < 65536:
            want = S(cia301_class(c["code"]))
            if o != want:
                return ("desc_wrong", f"code 0x{c['code']:04X}: {o!r}, CiA 301 class is {want!r}")
        return None
    if k == "desc_sweep":
        want = [[a, b, S(s)] for a, b, s in rle([cia301_class(x) for x in range(c["lo"], c["hi"] + 1)], c["lo"])]
        if o != want:
            if isinstance(o, Err):
                return ("desc_wrong", f"sweep raised {o!r}")
            got = {}
            for a, b, s in o:
                for x in range(a, b + 1):
                    got[x] = s
            for x in range(c["lo"], c["hi"] + 1):
                if got.get(x) != S(cia301_class(x)):
                    return ("desc_wrong", f"code 0x{x:04X}: {got.get(x)!r}, CiA 301 class is {cia301_class(x)!r}")
            return ("desc_wrong", "sweep differs in shape")
        return None
    if k == "wait":
        gaps = case_gaps(c)
        def first(entries):
            for e in entries:
                if c["filt"] is None or e[0] == c["filt"]:
                    return e
            return None
        late_at = c.get("late_at")
        in_time = list(zip(c["wakes"], gaps))[:late_at]        # what is logged once the deadline has passed does not count
        want = first([frame_fields(f, ts) for b, g in in_time for f, ts in b + g])
        if o != want:
            looked_at = first([frame_fields(f, ts) for b in c["wakes"] for f, ts in b])
            ignoring_deadline = first([frame_fields(f, ts) for b, g in zip(c["wakes"], gaps) for f, ts in b + g])
            flat = [frame_fields(f, ts) for b, g in in_time for f, ts in b + g]
            after = flat[flat.index(want) + 1:] if want in flat else []
            sig = (DEADLINE_SIG if late_at is not None and o == ignoring_deadline else
                   RESET_SIG if o is None and want is not None and is_reset_frame(want[0])
                   and all(is_reset_frame(e[0]) for e in after) else
                   GAP_SIG if any(gaps) and o == looked_at else
                   BURST_SIG if any(len(b) > 1 for b in c["wakes"]) else "wait_wrong_entry")
            sched = "; ".join(", ".join(_fmt_entry(frame_fields(f, ts)) for f, ts in b) +
                              (" {between two iterations: " + ", ".join(_fmt_entry(frame_fields(f, ts)) for f, ts in g) + "}" if g else "")
                              + (" || DEADLINE PASSES HERE ||" if late_at is not None and i + 1 == late_at else "")
                              for i, (b, g) in enumerate(zip(c["wakes"], gaps)))
            if late_at == 0:
                sched = "|| DEADLINE PASSES HERE || " + sched
            return (sig, f"wait({'None' if c['filt'] is None else hex(c['filt'])}) on a log of {len(c['pre'])} older entries with "
                         f"arrivals [{sched}] (';' separates wake-ups) returned {_fmt_entry(o) if o is not None else None}, "
                         f"expected {_fmt_entry(want) if want is not None else None}")
        return None
    return None


# ------------------------------------------------------------------ Gallina printing
def gframe(ft):
    return f"({gzlist(ft[0])}, {gz(ft[1])})"


def gframes(l):
    return "[" + "; ".join(gframe(x) for x in l) + "]"


def coq_case(c):
    k = c["kind"]
    if k == "hist":
        ops = []
        for op in c["ops"]:
            if op[0] == "f": ops.append(f"OFrame {gzlist(op[1])} {gz(op[2])}")
            elif op[0] == "cb": ops.append("OAddCb")
            else: ops.append("OReset")
        return f"CHist {gz(c['ncb'])} [{'; '.join(ops)}]"
    if k == "prod": return f"CProd {gz(c['code'])} {gz(c['reg'])} {gzlist(c['data'])}"
    if k == "prod_reset": return f"CProdReset {gz(c['reg'])} {gzlist(c['data'])}"
    if k == "round": return f"CRound {gz(c['code'])} {gz(c['reg'])} {gzlist(c['data'])} {gz(c['ts'])}"
    if k == "desc": return f"CDesc {gz(c['code'])}"
    if k == "prod_seq":
        ms = [f"PSend {gz(m[1])} {gz(m[2])} {gzlist(m[3])}" if m[0] == "send" else f"PReset {gz(m[1])} {gzlist(m[2])}"
              for m in c["msgs"]]
        return f"CProdSeq [{'; '.join(ms)}] {gz(c['ts'])}"
    if k == "wait":
        ws = []
        for i, (b, g) in enumerate(zip(c["wakes"], case_gaps(c))):
            ws.append(f"{'KLate' if c.get('late_at') == i else 'KNew'} {gframes(b)}")
            if g:
                ws.append(f"KNew {gframes(g)}")     # logged while the waiter is back in Condition.wait(): its own wake-up
        ws.append("KTimeout")
        return f"CWait {gopt(c['filt'])} {gframes(c['pre'])} [{'; '.join(ws)}]"
    raise ValueError(k)


def nontrivial(c):
    k = c["kind"]
    if k == "hist": return any(op[0] == "f" and len(op[1]) == 8 for op in c["ops"])
    if k == "wait": return any(len(b) > 0 for b in c["wakes"])
    return True


# ------------------------------------------------------------------ generators
BOUNDARY_CODES = sorted(set(
    [0x0000, 0x0001, 0x007F, 0x0080, 0x00FF, 0x0100, 0x0101, 0x01FF, 0x0200, 0x0800, 0x0F00, 0x0FFF,
     0xF700, 0xF7FF, 0xF800, 0xF8FF, 0xFE00, 0xFEFF, 0xFF00, 0xFF01, 0xFF7F, 0xFF80, 0xFFFE, 0xFFFF] +
    [b + d for b in range(0x1000, 0x10000, 0x1000) for d in (-1, 0, 1, 0xFE, 0xFF, 0x100, 0x101, 0x7FF, 0x800, 0x8FF, 0xEFF, 0xF00)
     if 0 <= b + d < 0x10000]))


def rcode(rng):
    r = rng.random()
    if r < 0.06: return 0                                             # the reset code EmcyProducer.reset sends
    if r < 0.18: return rng.randrange(0, 0x100)                       # reset codes 00xx
    if r < 0.30: return rng.choice((0x0100, 0x0200, 0x0400, 0x0800, 0x0F00, 0x1000, 0x2000, 0x8000, 0xFF00,
                                    0x0180, 0x0FFF, 0x1100, 0x8100))   # near-resets: low byte 0 / high nibble 0
    if r < 0.65: return rng.choice(BOUNDARY_CODES)
    return rng.randrange(0x10000)


def rdata(rng, n):
    m = rng.random()
    if m < 0.15: return [0] * n
    if m < 0.25: return [255] * n
    if m < 0.40: return [rng.choice((0, 255, rng.randrange(256))) for _ in range(n)]
    return [rng.randrange(256) for _ in range(n)]


def rreg(rng):
    return rng.choice((0, 1, 127, 128, 255, rng.randrange(256), rng.randrange(256)))


def rframe(rng, code=None):
    code = rcode(rng) if code is None else code
    return [code & 255, code >> 8, rreg(rng)] + rdata(rng, 5)


def rts(rng, prev):
    m = rng.random()
    if m < 0.1: return prev                                  # equal timestamps
    if m < 0.15: return rng.randrange(-1000, 1000)           # clock going backwards / negative
    if m < 0.2: return rng.randrange(1 << 40)
    return prev + rng.randrange(1, 2000)


def gen_hist(rng, malformed):
    n = rng.choice((0, 1, 2, 3, 3, 4, 4, 5, 5, 6, 6, 7, 8, 9, 12))
    ops, ts = [], rng.randrange(0, 100000)
    for _ in range(n):
        r = rng.random()
        ts = rts(rng, ts)
        if malformed and r < 0.2:
            ln = rng.choice((0, 1, 2, 3, 5, 7, 7, 9, 9, 10, 12))
            ops.append(["f", [rng.randrange(256) for _ in range(ln)], ts])
        elif r < 0.27:
            ops.append(["cb"])
        elif r < 0.33:
            ops.append(["reset"])
        else:
            ops.append(["f", rframe(rng), ts])
    return dict(kind="hist", via=rng.choice(("direct", "net")), ncb=rng.choice((0, 1, 1, 2, 2, 3)), ops=ops)


def gen_long_hist(rng):
    """long runs without a reset (a bounded or periodically cleared active list would show)"""
    n = rng.randrange(18, 34)
    ops, ts = [], rng.randrange(0, 100000)
    reset_at = rng.choice((None, None, rng.randrange(n)))
    for i in range(n):
        ts += rng.randrange(1, 2000)
        code = rng.randrange(0x100) if i == reset_at else rng.choice((rng.randrange(0x100, 0x10000), rng.choice(BOUNDARY_CODES[5:])))
        ops.append(["f", [code & 255, code >> 8, rreg(rng)] + rdata(rng, 5), ts])
    return dict(kind="hist", via=rng.choice(("direct", "net")), ncb=rng.choice((0, 1)), ops=ops)


def gen_wait(rng, gapmatch=False):
    """a wait with/without filter; wake-ups that see 1..3 new frames (bursts); sometimes frames logged between two
    iterations of the loop.  gapmatch: the first matching frame is one of those."""
    pool = [rcode(rng) for _ in range(3)]
    if rng.random() < 0.5:
        pool.append(pool[0] ^ rng.choice((0x0001, 0x0002, 0x0080, 0x0100, 0x0200, 0x1000, 0x8000)))   # near miss of the filter
    target = pool[0]
    filt = target if gapmatch else rng.choice((None, target, target, target, rng.randrange(0x10000)))
    others = [x for x in pool if x != filt] or [target ^ 0x0100]
    ts = rng.randrange(1000)

    def fr(codes):
        nonlocal ts
        ts += rng.randrange(1, 50)
        return [rframe(rng, rng.choice(codes)), ts]
    pre = [fr(pool) for _ in range(rng.choice((0, 0, 1, 2, 3)))]
    if rng.random() < 0.3 and filt is not None:
        pre.append(fr([filt]))                                # an older matching entry must not be returned
    n = rng.choice((0, 1, 1, 2, 2, 3, 4, 5))
    if gapmatch:
        k = rng.randrange(1, 4)
        wakes = [[fr(others) for _ in range(rng.choice((1, 1, 2)))] for _ in range(k)]
        gaps = [[] for _ in range(k)]
        gaps[rng.randrange(k)] = [fr([filt])]
        wakes += [[fr(pool)] for _ in range(rng.choice((0, 1, 2)))]
        gaps += [[] for _ in range(len(wakes) - k)]
        return dict(kind="wait", filt=filt, pre=pre, wakes=wakes, gaps=gaps)
    wakes = [[fr(pool) for _ in range(rng.choice((1, 1, 1, 2, 2, 3)))] for _ in range(n)]
    c = dict(kind="wait", filt=filt, pre=pre, wakes=wakes)
    if wakes and filt is not None and rng.random() < 0.3:
        # frames between two iterations that do not match the filter: they must change nothing
        c["gaps"] = [[fr(others) for _ in range(rng.choice((0, 1, 1, 2)))] for _ in wakes]
    return c


def gen_wait_deadline(rng):
    """the deadline of the call passes (scripted clock) while frames keep arriving: nothing logged after it may be
    handed out, however many non-matching frames arrived before (each of them restarts Condition.wait's own time-out)"""
    target = rcode(rng)
    other = [target ^ x for x in (0x0001, 0x0100, 0x1000, 0x8000)] + [rcode(rng)]
    other = [x for x in other if x != target]
    filt = rng.choice((target, target, target, None))
    ts = rng.randrange(1000)

    def fr(codes):
        nonlocal ts
        ts += rng.randrange(1, 50)
        return [rframe(rng, rng.choice(codes)), ts]
    pre = [fr(other + [target]) for _ in range(rng.choice((0, 0, 1, 2)))]
    k = rng.choice((0, 1, 1, 2, 3, 5)) if filt is not None else 0
    early_match = filt is not None and k > 0 and rng.random() < 0.2
    wakes = [[fr(other) for _ in range(rng.choice((1, 1, 2)))] for _ in range(k)]
    if early_match:
        wakes[rng.randrange(k)].append(fr([target]))           # arrived in time: must still be handed over
    wakes.append([fr([target] if rng.random() < 0.4 else other) for _ in range(rng.choice((1, 1, 2)))])   # the late wake-up
    wakes += [[fr(other)] for _ in range(rng.choice((0, 1, 2)))]
    wakes.append([fr([target])])                                # a match long after the deadline
    return dict(kind="wait", filt=filt, pre=pre, wakes=wakes, late_at=k)


def gen_cases(rng, tier):
    n_hist = {"quick": 260, "thorough": 2600, "search": 500}[tier]
    n_prod = {"quick": 150, "thorough": 1500, "search": 300}[tier]
    n_round = {"quick": 120, "thorough": 1200, "search": 300}[tier]
    n_desc = {"quick": 200, "thorough": 3000, "search": 0}[tier]
    n_wait = {"quick": 30, "thorough": 240, "search": 24}[tier]
    cases = []
    # fixed families first
    for code in (0x0000, 0x00FF, 0x0100, 0x1000, 0x0F00, 0xFF00, 0xFFFF):
        f = [code & 255, code >> 8, 0x81, 1, 2, 3, 4, 5]
        for via in ("direct", "net"):
            cases.append(dict(kind="hist", via=via, ncb=2, ops=[["f", [1, 0x20, 2, 0, 1, 2, 3, 4], 1000], ["f", f, 2000],
                                                                 ["f", [0x10, 0x90, 1, 4, 3, 2, 1, 0], 3000]]))
    for ln in range(0, 13):
        cases.append(dict(kind="hist", via="direct" if ln % 2 else "net", ncb=1,
                          ops=[["f", [0x10, 0x81, 1, 0, 0, 0, 0, 9], 5], ["f", list(range(1, ln + 1)), 6],
                               ["f", [0, 0x30, 0, 9, 9, 9, 9, 9], 7]]))
    for i in range(n_hist):
        cases.append(gen_hist(rng, malformed=(i % 5 == 0)))
    for _ in range({"quick": 3, "thorough": 24, "search": 3}[tier]):
        cases.append(gen_long_hist(rng))
    # producer
    edge_codes = [-1, 0, 1, 0xFF, 0x100, 0x7FFF, 0x8000, 0xFFFE, 0xFFFF, 0x10000, 0x10001, -0x8000, 1 << 32]
    edge_regs = [-1, 0, 1, 127, 128, 254, 255, 256, 257]
    for code in edge_codes:
        for reg in (0, 255):
            cases.append(dict(kind="prod", code=code, reg=reg, data=rdata(rng, rng.randrange(0, 6))))
    for reg in edge_regs:
        cases.append(dict(kind="prod", code=rcode(rng), reg=reg, data=rdata(rng, rng.randrange(0, 6))))
        cases.append(dict(kind="prod_reset", reg=reg, data=rdata(rng, rng.randrange(0, 6))))
    for n in range(0, 9):
        cases.append(dict(kind="prod", code=rcode(rng), reg=rreg(rng), data=[rng.randrange(1, 256) for _ in range(n)]))
        cases.append(dict(kind="prod_reset", reg=rreg(rng), data=[rng.randrange(1, 256) for _ in range(n)]))
        cases.append(dict(kind="round", code=rcode(rng), reg=rreg(rng), data=[rng.randrange(1, 256) for _ in range(n)],
                          ts=rng.randrange(10 ** 6)))
    for _ in range(n_prod):
        if rng.random() < 0.8:
            cases.append(dict(kind="prod", code=rcode(rng), reg=rreg(rng), data=rdata(rng, rng.randrange(0, 6))))
        else:
            cases.append(dict(kind="prod_reset", reg=rreg(rng), data=rdata(rng, rng.randrange(0, 6))))
    for _ in range(n_round):
        cases.append(dict(kind="round", code=rcode(rng), reg=rreg(rng), data=rdata(rng, rng.randrange(0, 6)),
                          ts=rts(rng, rng.randrange(10 ** 6))))
    # several messages from ONE producer object (a producer that keeps state between messages would show): data lengths
    # mostly decreasing, non-zero bytes, send and reset mixed
    cases.append(dict(kind="prod_seq", ts=500, msgs=[["send", 0x2001, 2, [1, 2, 3, 4, 5]], ["reset", 0, []]]))
    cases.append(dict(kind="prod_seq", ts=600, msgs=[["send", 0x8100, 1, [9, 8, 7, 6, 5]], ["send", 0x8100, 1, [1, 2]],
                                                       ["reset", 3, [0xAA]], ["send", 0xFF00, 255, []]]))
    for _ in range({"quick": 60, "thorough": 600, "search": 150}[tier]):
        n = rng.choice((2, 2, 3, 3, 4, 6))
        ln = rng.choice((5, 5, 4, 3))
        msgs = []
        for _ in range(n):
            data = [rng.randrange(1, 256) for _ in range(ln)]
            if rng.random() < 0.3:
                msgs.append(["reset", rreg(rng), data])
            else:
                msgs.append(["send", rcode(rng), rreg(rng), data])
            ln = rng.choice((max(0, ln - 1), max(0, ln - 2), 0, ln, rng.randrange(0, 6)))
        cases.append(dict(kind="prod_seq", ts=rng.randrange(10 ** 6), msgs=msgs))
    # descriptions: single codes through model + oracle, all 65536 codes as run-length sweeps through the oracle
    for code in BOUNDARY_CODES if tier != "search" else ():
        cases.append(dict(kind="desc", code=code))
    for code in (-1, -256, 0x10000, 0x10FFF, 0x12000, 1 << 20) if tier != "search" else ():
        cases.append(dict(kind="desc", code=code))
    for _ in range(n_desc):
        cases.append(dict(kind="desc", code=rng.randrange(0x10000)))
    for lo in range(0, 0x10000, 0x2000):
        cases.append(dict(kind="desc_sweep", lo=lo, hi=lo + 0x1FFF, model=False))
    # wait: runtime part
    e2001 = [[1, 0x20, 1, 1, 2, 3, 4, 5], 100]
    e3000 = [[0, 0x30, 0, 0, 0, 0, 0, 0], 101]
    e2002 = [[2, 0x20, 0, 0, 0, 0, 0, 0], 102]
    cases += [dict(kind="wait", filt=None, pre=[], wakes=[]),
              dict(kind="wait", filt=None, pre=[e3000], wakes=[[e2001]]),
              dict(kind="wait", filt=0x2001, pre=[e2001], wakes=[[e3000], [e2002], [e2001], [e3000]]),
              dict(kind="wait", filt=0x2001, pre=[e2001], wakes=[[e3000], [e2002]]),
              dict(kind="wait", filt=0x9000, pre=[], wakes=[[e2001]])]
    for _ in range(n_wait):
        cases.append(gen_wait(rng))
    # bursts: several frames seen by one wake-up (before 435c8a8 only the last one was examined)
    cases += [dict(kind="wait", filt=0x2001, pre=[], wakes=[[e2001, e3000]]),
              dict(kind="wait", filt=None, pre=[], wakes=[[e2001, e3000]]),
              dict(kind="wait", filt=0x2001, pre=[e2001], wakes=[[e3000, e2002], [e3000, e2001, e2002]]),
              dict(kind="wait", filt=0x2001, pre=[], wakes=[[e3000]], gaps=[[e2002]])]
    # the deadline of the call passes while non-matching frames keep arriving (scripted clock)
    cases += [dict(kind="wait", filt=0x2001, pre=[], wakes=[[e3000], [e2002], [e3000], [e2001]], late_at=2),
              dict(kind="wait", filt=0x2001, pre=[], wakes=[[e3000], [e2002, e2001]], late_at=1),
              dict(kind="wait", filt=0x2001, pre=[], wakes=[[e3000, e2001], [e2002]], late_at=1),
              dict(kind="wait", filt=None, pre=[e3000], wakes=[[e2001]], late_at=0),
              dict(kind="wait", filt=0x2001, pre=[], wakes=[[e3000], [e2002], [e3000]], late_at=2)]
    for _ in range(max(4, n_wait // 4)):
        cases.append(gen_wait_deadline(rng))
    # an error-RESET frame (class 00xx) is what the caller waits for (no filter, or a filter on a 00xx code), and nothing
    # follows it: the caller must be woken by it
    r0000 = [[0, 0, 0, 0, 0, 0, 0, 0], 103]
    r00ff = [[255, 0, 7, 1, 0, 0, 0, 0], 104]
    cases += [dict(kind="wait", filt=None, pre=[], wakes=[[r0000]]),
              dict(kind="wait", filt=None, pre=[e2001], wakes=[[r00ff]]),
              dict(kind="wait", filt=0, pre=[], wakes=[[e3000], [r0000]]),
              dict(kind="wait", filt=0x00FF, pre=[r00ff], wakes=[[e2001, e3000], [r0000], [r00ff]])]
    for _ in range(max(3, n_wait // 6)):
        rc = rng.choice((0, 0, 0xFF, rng.randrange(0x100)))
        filt = rng.choice((None, rc, rc))
        ts0 = rng.randrange(1000)
        before = [] if filt is None else [[[rframe(rng, rng.choice((0x2001, 0x8100, rc ^ 0x100, (rc + 1) & 0xFF))), ts0 + i]]
                                           for i in range(rng.choice((0, 1, 2)))]
        cases.append(dict(kind="wait", filt=filt, pre=[[rframe(rng), ts0 - 1]] if rng.random() < 0.4 else [],
                          wakes=before + [[[rframe(rng, rc), ts0 + 10]]]))
    # a frame logged right after a look at the log that found no match (before 435c8a8 it was never examined)
    cases.append(dict(kind="wait", filt=0x2001, pre=[], wakes=[[e3000]], gaps=[[e2001]]))
    cases.append(dict(kind="wait", filt=0x2001, pre=[e2001], wakes=[[e3000, e2002], [e2002]], gaps=[[], [e2001, e3000]]))
    for _ in range(max(3, n_wait // 6)):
        cases.append(gen_wait(rng, gapmatch=True))
    # the sweeps and the waits are kept away from the ends of the list (evidence samples come from there)
    tail = [c for c in cases if c["kind"] in ("prod", "round")][-2:]
    cases = [c for c in cases if not any(c is t for t in tail)] + tail
    return cases


def shrink(c):
    k = c["kind"]
    if k == "hist":
        ops = c["ops"]
        for i in range(len(ops)):
            yield dict(c, ops=ops[:i] + ops[i + 1:])
        if c["ncb"] > 0:
            yield dict(c, ncb=c["ncb"] - 1)
        for i, op in enumerate(ops):
            if op[0] == "f" and len(op[1]) == 8 and any(op[1][2:]):
                yield dict(c, ops=ops[:i] + [["f", op[1][:2] + [0] * 6, op[2]]] + ops[i + 1:])
    elif k == "wait":
        if c["pre"]:
            yield dict(c, pre=c["pre"][1:])
        w, g = c["wakes"], case_gaps(c)
        la = c.get("late_at")
        for i in range(len(w)):
            if la is None:
                yield dict(c, wakes=w[:i] + w[i + 1:], gaps=g[:i] + g[i + 1:])
            elif i != la:
                yield dict(c, wakes=w[:i] + w[i + 1:], gaps=g[:i] + g[i + 1:], late_at=la - 1 if i < la else la)
        for i in range(len(w)):
            if len(w[i]) > 1:
                for j in range(len(w[i])):
                    yield dict(c, wakes=w[:i] + [w[i][:j] + w[i][j + 1:]] + w[i + 1:], gaps=g)
            if g[i]:
                yield dict(c, wakes=w, gaps=g[:i] + [[]] + g[i + 1:])
    elif k == "desc_sweep":
        if c["hi"] > c["lo"]:
            mid = (c["lo"] + c["hi"]) // 2
            yield dict(c, hi=mid)
            yield dict(c, lo=mid + 1)
    elif k == "prod_seq":
        ms = c["msgs"]
        for i in range(len(ms)):
            if len(ms) > 1:
                yield dict(c, msgs=ms[:i] + ms[i + 1:])
        for i, m in enumerate(ms):
            d = m[-1]
            if d and i > 0:
                yield dict(c, msgs=ms[:i] + [m[:-1] + [d[:-1]]] + ms[i + 1:])
    elif k in ("prod", "round", "prod_reset"):
        d = c["data"]
        if d:
            yield dict(c, data=d[:-1])
        if any(d):
            yield dict(c, data=[0] * len(d))
        if c.get("reg"):
            yield dict(c, reg=0)


def neighbours(c, rng):
    """cases near a disagreeing case (failing-input search)"""
    k = c["kind"]
    if k == "hist":
        for op in c["ops"]:
            if op[0] == "f" and len(op[1]) == 8:
                for via in ("direct", "net"):
                    yield dict(kind="hist", via=via, ncb=1, ops=[["f", [1, 0x20, 0, 0, 0, 0, 0, 0], 1], op, ["f", [2, 0x30, 0, 0, 0, 0, 0, 0], 2]])
                code = op[1][0] + 256 * op[1][1]
                yield dict(kind="desc", code=code)
                yield dict(kind="round", code=code, reg=op[1][2], data=op[1][3:8], ts=op[2])
    elif k == "desc":
        for d in (-1, 0, 1):
            if 0 <= c["code"] + d < 0x10000:
                yield dict(kind="desc", code=c["code"] + d)
    elif k in ("prod", "round"):
        yield dict(kind="round", code=c["code"] & 0xFFFF, reg=c["reg"] & 0xFF, data=c["data"][:5], ts=c.get("ts", 1))
        yield dict(kind="prod", code=c["code"] & 0xFFFF, reg=c["reg"] & 0xFF, data=c["data"][:5])
    elif k == "wait":
        for _ in range(5):
            yield gen_wait(rng)
