"""C14 - exporting a dictionary to EDS/DCF and importing it again loses nothing; the destination kind
(file name with .eds/.dcf suffix, open text stream, standard output) does not change the document."""
import contextlib, copy, io, os, shutil, tempfile
from vlib.obs import S, Err, guarded, gz, gzlist, gopt, gbool, glist
from ref import eds_writer as W
from ref import odgen
from props import c08
from props.c08 import HObs, full_obs, gs, gdoc, dump_od, parse_tokens, check_dictionary, DI_KEY2ATTR

from vlib import coqrun as _coqrun
_coqrun.CHUNK = 24          # every case is a whole document: small case files, evaluated in parallel

PROP = "C14"
ANCHORS = [('canopen.objectdictionary.eds', 'export_eds'), ('canopen.objectdictionary.eds', 'export_dcf'), ('canopen.objectdictionary.eds', '_revert_variable'), ('canopen.objectdictionary.eds', 'import_eds'), ('canopen.objectdictionary.eds', 'build_variable'), ('canopen.objectdictionary', 'export_od'), ('canopen.objectdictionary', 'import_od')]
MODEL_VO = ["theories/Model/Eds.vo"]
COQ_IMPORTS = "From CV Require Import Model.Eds."
COQ_RUN = "run_eds_full" if c08.FULL else "run_eds"
COQ_CASE_TYPE = "eds_case"
RULE = ("cases = dictionaries built in code with the library's classes (all data types, range-end defaults and limits, records "
        "and arrays of 1..20 members, names with spaces, '%' and '=', storage locations, factor/unit/description, comments, "
        "device information, node id, bit rate) exported as EDS and DCF to a stream, a file name and stdout and re-imported; "
        "plus documents of the independent writer imported, exported and re-imported; non-trivial = at least one object; "
        "distinct by canonical JSON of the case")
TRUSTED = c08.TRUSTED + ["the [FileInfo] section (time stamps, taken from a mutable default argument) is masked: it is not part of "
                         "the property's attribute list and not produced by the model"]
ASSUMPTIONS = c08.ASSUMPTIONS + ["bit rates are multiples of 1000 bit/s, node ids 1..127 (0 / None mean 'not set')",
                                 "strings carry no leading/trailing blanks, no line breaks and no ' ;' (text layer)"]


# ------------------------------------------------------------------ building a dictionary in code
def py_value(d):
    if d is None: return None
    if "int" in d: return d["int"]
    if "str" in d: return d["str"]
    if "hex" in d: return bytes(d["bytes"])
    if "flt" in d:
        if d.get("as_int"): return d["flt"][0] * 10 ** d["flt"][1]        # a Python int in a REAL object
        return float("%de%d" % tuple(d["flt"]))
    raise ValueError(d)


def build_var(v, index):
    from canopen.objectdictionary import ODVariable
    x = ODVariable(v["name"], index, v["sub"])
    x.data_type = v["dt"]
    x.access_type = v["access"]
    x.pdo_mappable = bool(v.get("pdo"))
    if v.get("default") is not None:
        x.default = py_value(v["default"])
        if v["dt"] == W.BOOLEAN: x.default = bool(x.default)
    if v.get("pvalue") is not None: x.value = py_value(v["pvalue"])
    if v.get("low") is not None: x.min = v["low"]
    if v.get("high") is not None: x.max = v["high"]
    if v.get("storage") is not None: x.storage_location = v["storage"]
    if v.get("factor") is not None: x.factor = float("%de%d" % tuple(v["factor"]))
    if v.get("unit") is not None: x.unit = v["unit"]
    if v.get("descr") is not None: x.description = v["descr"]
    return x


def build_od(desc):
    from canopen.objectdictionary import ObjectDictionary, ODRecord, ODArray
    od = ObjectDictionary()
    od.node_id = desc.get("file_node_id")
    od.bitrate = desc["baudrate_kbit"] * 1000 if desc.get("baudrate_kbit") else None
    od.comments = "\n".join(desc.get("comments") or [])
    for k, val in (desc.get("devinfo") or {}).items():
        setattr(od.device_information, DI_KEY2ATTR[k], val)
    od.device_information.allowed_baudrates = {int(r) * 1000 for r, on in desc.get("baud", {}).items() if on}
    for o in desc["objects"]:
        if o["kind"] == "var":
            od.add_object(build_var(o["var"], o["index"]))
        else:
            c = (ODRecord if o["kind"] == "rec" else ODArray)(o["name"], o["index"])
            if o.get("storage") is not None: c.storage_location = o["storage"]
            for m in o["members"]: c.add_member(build_var(m, o["index"]))
            od.add_object(c)
    return od


# ------------------------------------------------------------------ export to the three destination kinds
def mask(text):
    """the document without its [FileInfo] section"""
    out, skip = [], False
    for line in text.splitlines():
        if line.startswith("["): skip = line.strip() == "[FileInfo]"
        if not skip: out.append(line)
    return "\n".join(out)


def export_everywhere(od, doc_type):
    """the document written to every kind of destination: stream, stdout, file names (type from the suffix; explicit
    type with a neutral, a missing and a CONTRADICTING suffix)"""
    import canopen
    buf = io.StringIO()
    canopen.export_od(od, buf, doc_type)
    so = io.StringIO()
    with contextlib.redirect_stdout(so):
        canopen.export_od(od, None, doc_type)
    texts = [buf.getvalue(), so.getvalue()]
    other = "eds" if doc_type == "dcf" else "dcf"
    d = tempfile.mkdtemp(prefix="c14-")
    try:
        for name, explicit in (("out." + doc_type, None), ("out." + doc_type, doc_type), ("out.txt", doc_type),
                               ("out", doc_type), ("backup." + other, doc_type)):
            path = os.path.join(d, name)
            canopen.export_od(od, path, explicit)
            with open(path) as f: texts.append(f.read())
    finally:
        shutil.rmtree(d, ignore_errors=True)
    return texts[0], [mask(t) for t in texts]


def sorted_doc(text):
    toks = [sec for sec in parse_tokens(text) if sec[0] != "FileInfo"]
    return [[S(sec), [[S(k), S(v)] for k, v in sorted(kv)]] for sec, kv in toks]


def export_reimport(od, doc_type, nid):
    import canopen
    text, masked = export_everywhere(od, doc_type)
    same = all(m == masked[0] for m in masked)
    f = io.StringIO(text); f.name = "again." + doc_type
    od2 = guarded(lambda: dump_od(canopen.import_od(f, nid)))
    return HObs([same, sorted_doc(text), od2])


def var_of(od, index, sub):
    o = od.indices[index]
    return o if sub is None else o.subindices[sub]


def apply_mods_desc(desc, mods):
    """the description of the dictionary after the modifications"""
    d = copy.deepcopy(desc)
    for m in mods:
        if "od" in m:
            d[{"node_id": "file_node_id", "bitrate": "baudrate_kbit", "comments": "comments"}[m["od"]]] = m["value"]
            continue
        o = next(x for x in d["objects"] if x["index"] == m["index"])
        v = o["var"] if m["sub"] is None else next(x for x in o["members"] if x["sub"] == m["sub"])
        if m["value"] is None: v.pop(m["field"], None)
        else: v[m["field"]] = m["value"]
    return d


def apply_mods_live(od, mods):
    """the same modifications made on the live dictionary through its public attributes"""
    for m in mods:
        if "od" in m:
            if m["od"] == "node_id": od.node_id = m["value"]
            elif m["od"] == "bitrate": od.bitrate = m["value"] * 1000 if m["value"] else None
            else: od.comments = "\n".join(m["value"])
            continue
        v = var_of(od, m["index"], m["sub"])
        f, val = m["field"], m["value"]
        if f == "default":
            v.default = py_value(val)
            if v.data_type == W.BOOLEAN and val is not None: v.default = bool(v.default)
        elif f == "pvalue": v.value = py_value(val)
        elif f == "pdo": v.pdo_mappable = bool(val)
        elif f == "descr": v.description = val or ""
        elif f == "unit": v.unit = val or ""
        elif f == "low": v.min = val
        elif f == "high": v.max = val
        else: raise ValueError(f)


DEST_OD = None
def dest_od():
    from canopen.objectdictionary import ObjectDictionary, ODVariable
    od = ObjectDictionary(); od.node_id = 5; od.bitrate = 250000
    v = ODVariable("v", 0x2000); v.data_type = 0x06; v.default = 1; v.value = 2
    od.add_object(v)
    return od


def impl_dest(c):
    """which kind of document does export_od write for this destination / doc_type?  True = DCF, False = EDS,
    None = nothing"""
    import canopen
    def f():
        od = dest_od()
        if c["name"] is None:
            buf = io.StringIO()
            canopen.export_od(od, buf, c["doc_type"])
            text = buf.getvalue()
        else:
            d = tempfile.mkdtemp(prefix="c14-")
            try:
                path = os.path.join(d, c["name"])
                canopen.export_od(od, path, c["doc_type"])
                with open(path) as fp: text = fp.read()
            finally:
                shutil.rmtree(d, ignore_errors=True)
        if text == "": return None
        secs = dict(parse_tokens(text))
        return "DeviceComissioning" in secs and any(k == "ParameterValue" for k, _ in secs["2000"])
    return guarded(f)


def impl(c):
    k = c["kind"]
    if k == "dest":
        return impl_dest(c)
    if k == "hist":
        def f():
            import canopen
            od = build_od(c["desc"])
            buf = io.StringIO()
            canopen.export_od(od, buf, c["doc_type1"])
            state1 = dump_od(od)                          # an export leaves the dictionary as it was
            apply_mods_live(od, c["mods"])
            second = export_reimport(od, c["doc_type"], c.get("nid"))
            return HObs([state1, sorted_doc(buf.getvalue()), second.full], depth=4)
        return guarded(f)
    if k == "exp":
        return guarded(lambda: export_reimport(build_od(c["desc"]), c["doc_type"], c.get("nid")))
    if k == "reexp":
        def f():
            od = c08.import_text(W.render(W.tokens(c["desc"]), c.get("style", 0)), c.get("nid"), "stream", "." + c["desc"]["doc"])
            return export_reimport(od, c["doc_type"], c.get("nid2"))
        return guarded(f)
    raise ValueError(k)


# ------------------------------------------------------------------ oracle
def decompact(desc):
    """what a compact array amounts to once it has been imported: explicit members 0, 1 and the named ones"""
    objs = []
    for o in desc["objects"]:
        if o["kind"] == "compact":
            n0 = {"name": "Number of entries", "sub": 0, "dt": 0x05, "access": "rw", "pdo": False}
            subs = sorted({1} | {int(k) for k in (o["names"] or {})})
            ms = [dict(o["var"], sub=k, name=(o["names"] or {}).get(str(k), o["name"])) for k in subs]
            o = {"kind": "arr", "index": o["index"], "name": o["name"], "storage": o.get("storage"), "members": [n0] + ms}
        elif o["kind"] == "domain":
            o = dict(o, kind="var")
        objs.append(o)
    return dict(desc, objects=objs)


def oracle(c, o):
    if c["kind"] == "dest":
        t, name = c["doc_type"], c["name"]
        want = (t == "dcf") if t in ("eds", "dcf") else (name.endswith(".dcf") if t is None and name is not None and
                                                         (name.endswith(".dcf") or name.endswith(".eds")) else None)
        if want is not None and o is not want:
            return ("destination_changes_document",
                    f"export_od(od, {name!r}, {t!r}) wrote {'a DCF' if o is True else 'an EDS' if o is False else repr(o)}, "
                    f"{'a DCF' if want else 'an EDS'} was asked for")
        return None
    if isinstance(o, Err):
        return ("export_raises", f"export/import of a well-formed dictionary raised {o!r}")
    if c["kind"] == "hist":
        state1, doc1, second = full_obs(o)
        if isinstance(second, Err):
            return ("export_raises", f"second export / import raised {second!r}")
        same, doc, dump = second
        c = dict(c, kind="exp", desc=apply_mods_desc(c["desc"], c["mods"]))
    else:
        same, doc, dump = full_obs(o)
    if not same:
        return ("destination_changes_document", "the documents written to a stream, to stdout and to a file name differ")
    if isinstance(dump, Err):
        return ("reimport_raises", f"importing the exported document raised {dump!r}")
    dcf = c["doc_type"] == "dcf"
    desc = c["desc"]
    if c["kind"] == "exp":
        nid = c.get("nid") if c.get("nid") is not None else (desc.get("file_node_id") if dcf else None)
        first_node, first_rate = desc.get("file_node_id"), (desc["baudrate_kbit"] * 1000 if desc.get("baudrate_kbit") else None)
        d2 = dict(desc, commissioning=False, file_node_id=None)
    else:
        nid = W.node_id_in_force(desc, c.get("nid"))
        first_node = nid if desc.get("commissioning") else None
        first_rate = desc["baudrate_kbit"] * 1000 if desc.get("commissioning") and desc.get("baudrate_kbit") else None
        d2 = dict(decompact(desc), commissioning=False, file_node_id=None)
        if desc.get("devinfo") is None: d2["devinfo"] = None
    if d2.get("comments") is None: d2["comments"] = []
    r = check_dictionary(d2, nid, [dump[0], dump[1], dump[2], dump[3], dump[4], None, None], [], [], names_demanded=False,
                         value_too=dcf)
    if r: return r
    if dcf:
        if dump[5] != first_rate: return ("bitrate_wrong", f"bit rate {dump[5]!r} after the round trip, was {first_rate!r}")
        if dump[6] != first_node: return ("node_id_wrong", f"node id {dump[6]!r} after the round trip, was {first_node!r}")
    return None


# ------------------------------------------------------------------ Gallina printing of a dictionary built in code
def gpyv(d, dt=None):
    if d is None: return "None"
    if "int" in d: return f"(Some (PVInt {gz(d['int'])}))"
    if "str" in d: return f"(Some (PVStr {gs(d['str'])}))"
    if "hex" in d: return f"(Some (PVBytes {gzlist(d['bytes'])}))"
    if "flt" in d:
        if d.get("as_int"): return f"(Some (PVInt {gz(d['flt'][0] * 10 ** d['flt'][1])}))"
        return f"(Some (PVFloat {gz(d['flt'][0])} {gz(d['flt'][1])}))"
    raise ValueError(d)


def gsopt(t): return "None" if t is None else f"(Some {gs(t)})"


def gvar(v, index):
    f = v.get("factor") or [1, 0]
    return (f"(mkVar {gs(v['name'])} {gz(index)} {gz(v['sub'])} {gz(v['dt'])} {gs(v['access'])} {gbool(bool(v.get('pdo')))} "
            f"{gpyv(v.get('default'))} {gopt(v.get('low'))} {gopt(v.get('high'))} {gpyv(v.get('pvalue'))} None None false "
            f"{gsopt(v.get('storage'))} ({gz(f[0])}, {gz(f[1])}) {gs(v.get('unit') or '')} {gs(v.get('descr') or '')})")


def god(desc):
    objs = []
    for o in desc["objects"]:
        if o["kind"] == "var":
            objs.append(f"OVar {gvar(o['var'], o['index'])}")
        else:
            objs.append(f"build_cont {'KRec' if o['kind'] == 'rec' else 'KArr'} {gs(o['name'])} {gz(o['index'])} {gsopt(o.get('storage'))} "
                        + glist([gvar(m, o["index"]) for m in o["members"]]))
    di, bools = [], []
    for k, t in W.DEVINFO_KEYS:
        if k in (desc.get("devinfo") or {}):
            val = desc["devinfo"][k]
            a = DI_KEY2ATTR[k]
            di.append(f"di_entry {gs(a)} " + (f"(PVStr {gs(val)})" if t is str else f"(PVInt {gz(int(val))})"))
            if t is bool: bools.append(gs(a))
    baud = sorted(int(r) * 1000 for r, on in desc.get("baud", {}).items() if on)
    rate = desc["baudrate_kbit"] * 1000 if desc.get("baudrate_kbit") else None
    return (f"(build_od {glist(objs)} {gs(chr(10).join(desc.get('comments') or []))} {gopt(rate)} {gopt(desc.get('file_node_id'))} "
            f"{glist(di)} {glist(bools)} {gzlist(baud)})")


def coq_case(c):
    if c["kind"] == "dest":
        return f"CDest {gsopt(c['name'])} {gsopt(c['doc_type'])}"
    dcf = gbool(c["doc_type"] == "dcf")
    if c["kind"] == "hist":
        return (f"CHistory {god(c['desc'])} {gbool(c['doc_type1'] == 'dcf')} {god(apply_mods_desc(c['desc'], c['mods']))} "
                f"{dcf} {gopt(c.get('nid'))}")
    if c["kind"] == "exp":
        return f"CExport {god(c['desc'])} {dcf} {gopt(c.get('nid'))}"
    return f"CReexport {gdoc(W.tokens(c['desc']))} {gopt(c.get('nid'))} {dcf} {gopt(c.get('nid2'))}"


def nontrivial(c): return c["kind"] == "dest" or len(c["desc"]["objects"]) >= 1


# ------------------------------------------------------------------ generators
def gen_cases(rng, tier):
    cases = []
    n_exp, n_re = {"quick": (60, 50), "thorough": (800, 600), "search": (150, 100)}[tier]
    for i in range(n_exp):
        desc = odgen.gen_desc(rng, "built", rng.choice(["small", "normal", "normal", "large"] if i % 10 else ["large"]))
        if i % 7 == 0:                                 # neither node id nor bit rate
            desc.update(commissioning=False, file_node_id=None, baudrate_kbit=None)
        for doc_type in ("eds", "dcf"):
            nid = rng.choice([None, desc.get("file_node_id")]) if doc_type == "dcf" else desc.get("file_node_id")
            cases.append(dict(kind="exp", desc=desc, doc_type=doc_type, nid=nid))
    for i in range(n_re):
        desc = odgen.gen_desc(rng, "written", rng.choice(["small", "normal"]))
        fid = desc.get("file_node_id") if desc.get("commissioning") else None
        nid = rng.choice([None, 5, rng.randrange(1, 128)] + ([fid] if fid else []))
        eff = W.node_id_in_force(desc, nid)
        doc_type = rng.choice(["eds", "dcf"])
        nid2 = rng.choice([eff, None]) if (doc_type == "dcf" and desc.get("commissioning")) else eff
        cases.append(dict(kind="reexp", desc=desc, style=rng.randrange(3), nid=nid, doc_type=doc_type, nid2=nid2))
    # histories: export, change the dictionary, export again (both document types), import
    g = odgen.Gen(rng, "built")
    for i in range({"quick": 40, "thorough": 400, "search": 80}[tier]):
        desc = g.desc(rng.choice(["small", "normal"]))
        vs = []
        for o in desc["objects"]:
            if o["kind"] == "var": vs.append((o["index"], None, o["var"]))
            else: vs += [(o["index"], m["sub"], m) for m in o["members"][1:]]
        mods = []
        for index, sub, v in rng.sample(vs, min(len(vs), rng.randrange(1, 5))):
            f = rng.choice(["default", "default", "pvalue", "pvalue", "pdo", "descr", "unit"])
            val = (g.dval(v["dt"], False) if rng.random() < 0.85 else None) if f in ("default", "pvalue") else \
                (not v.get("pdo")) if f == "pdo" else rng.choice(["changed", "2nd text", None])
            if f in ("default", "pvalue") and v["dt"] in (W.TIME_OF_DAY, W.TIME_DIFF) and f == "pvalue": continue
            mods.append(dict(index=index, sub=sub, field=f, value=val))
        if rng.random() < 0.3: mods.append(dict(od="node_id", value=rng.choice([None, 1, 9, 127])))
        if rng.random() < 0.3: mods.append(dict(od="bitrate", value=rng.choice([None, 125, 500])))
        if rng.random() < 0.3: mods.append(dict(od="comments", value=rng.choice([["new comment"], ["x = y"], ["a", "", "b"], ["", "after an empty line"]])))
        d2 = apply_mods_desc(desc, mods)
        doc_type = rng.choice(["eds", "dcf"])
        nid = d2.get("file_node_id") if doc_type == "eds" else rng.choice([None, d2.get("file_node_id")])
        cases.append(dict(kind="hist", desc=desc, doc_type1=rng.choice(["eds", "dcf"]), mods=mods, doc_type=doc_type, nid=nid))
    # destination / document type
    if tier != "search" or True:
        for name in (None, "a.eds", "a.dcf", "a.txt", "a", "a.dcf.eds", "a.eds.dcf", "a.EDS", "a.DCF", "dcf", ".dcf", "x.dcf.bak"):
            for t in (None, "eds", "dcf", "", "epf", "EDS"):
                cases.append(dict(kind="dest", name=name, doc_type=t))
    rng.shuffle(cases)
    return cases


def shrink(c):
    if c["kind"] == "dest": return
    if c["kind"] == "hist":
        for i in range(len(c["mods"])):
            if len(c["mods"]) > 1: yield dict(c, mods=c["mods"][:i] + c["mods"][i + 1:])
        return
    d = c["desc"]
    objs = d["objects"]
    for i in range(len(objs)):
        if len(objs) > 1:
            yield dict(c, desc=dict(d, objects=objs[:i] + objs[i + 1:]))
    for i, o in enumerate(objs):
        if o["kind"] in ("arr", "rec") and len(o["members"]) > 2:
            for j in range(1, len(o["members"])):
                o2 = dict(o, members=o["members"][:j] + o["members"][j + 1:])
                yield dict(c, desc=dict(d, objects=objs[:i] + [o2] + objs[i + 1:]))
    if d.get("devinfo"): yield dict(c, desc=dict(d, devinfo={}, baud={}))
    if d.get("comments"): yield dict(c, desc=dict(d, comments=[]))
