"""C06 - Refused SDO accesses report the standard abort code and change nothing.

Shares the server model, the implementation runner and the oracle for "run" cases with C02
(props/c02.py); adds the client-side abort decoding (SdoClient.read_response, and the public
upload/download API) and refusal-directed generators.
"""
import logging
from vlib.obs import Err, Abort, guarded, gz, gzlist
from ref import sdo_ref_client as R
from props import c02 as B

PROP = "C06"
ANCHORS = [('canopen.sdo.server', 'SdoServer'), ('canopen.node.local', 'LocalNode.get_data'), ('canopen.node.local', 'LocalNode.set_data'), ('canopen.node.local', 'LocalNode._find_object'), ('canopen.sdo.client', 'SdoClient.read_response'), ('canopen.sdo.exceptions', 'SdoAbortedError')]
MODEL_VO = B.MODEL_VO
COQ_IMPORTS = B.COQ_IMPORTS
COQ_RUN = B.COQ_RUN
COQ_CASE_TYPE = B.COQ_CASE_TYPE
RULE = ("run cases as in C02 (dictionary, callbacks, preset store, operations on a fresh LocalNode; reference-client uploads and "
        "downloads in all four modes, raw frames) directed at refusals: every access type (rw, ro, wo, const, rwr, rww) x every "
        "data type; numeric types x payload lengths 0..9 x expedited/segmented; missing indices, missing sub-indices of "
        "variables/records/arrays (incl. array templates); entries without value; wrong toggle and unknown/unsupported commands "
        "inside, before and after running transfers; refusals before/between/after successful transfers; random dictionaries. "
        "client cases: frames given to SdoClient.read_response (abort codes sampled over 32 bits, truncated aborts, no response) and "
        "SdoClient.upload/download answered by a scripted abort; api cases: the real SdoClient API against the real server on "
        "refused accesses. non-trivial = every case (each contains at least one refusal, abort frame or transfer); distinct by canonical JSON")
EXHAUSTIVE = {"quick": False, "thorough": False}
EXPLANATION = "abort codes are sampled (boundaries, the standard's table, random 32-bit values); access types x data types x lengths 0..9 are enumerated"
TRUSTED = B.TRUSTED + ["queue.Queue / time-out in SdoClient.read_response (a missing response is modelled as None)"]
ASSUMPTIONS = B.ASSUMPTIONS + [
    "a segmented download to an entry that refuses it is answered normally until the final segment, which is aborted with the "
    "condition's code (the standard lets a server abort at any point of a transfer; the property does not say when)",
    "where several refusal conditions hold at once (read-only and wrong length) either code is accepted by the oracle",
    "block download / unknown command: the abort may name the frame's multiplexer, the running transfer's, or zero (DESIGN.md section 6)"]

NODE_ID = B.NODE_ID
logging.disable(logging.CRITICAL)


# ------------------------------------------------------------------ implementation runners
def make_client():
    from canopen.sdo import SdoClient
    from canopen.objectdictionary import ObjectDictionary
    c = SdoClient(0x600 + NODE_ID, 0x580 + NODE_ID, ObjectDictionary())
    c.RESPONSE_TIMEOUT = 0.002
    c.MAX_RETRIES = 1
    return c


def impl_client(c):
    cl = make_client()
    if c["resp"] is not None:
        cl.on_response(0x580 + NODE_ID, bytearray(c["resp"]), 0.0)
    return guarded(lambda: bytes(cl.read_response()))


def impl_scripted(c):
    """SdoClient.upload / download against a peer that answers the first request with the given frame"""
    import canopen
    cl = make_client()
    class Net(canopen.Network):
        def send_message(self, can_id, data, remote=False):
            if can_id == 0x600 + NODE_ID and not self.done:
                self.done = True
                cl.on_response(0x580 + NODE_ID, bytearray(c["resp"]), 0.0)
    net = Net()
    net.done = False
    cl.network = net
    if c["op"] == "up":
        return guarded(lambda: bytes(cl.upload(c["idx"], c["sub"])))
    return guarded(lambda: cl.download(c["idx"], c["sub"], bytes(c["data"]), c["force"]))


def impl_api(c):
    """the real client API against the real server, wired back to back"""
    import canopen
    cl = make_client()
    class Net(canopen.Network):
        def __init__(self):
            super().__init__()
            self.sent = []
        def send_message(self, can_id, data, remote=False):
            self.sent.append((can_id, bytes(data)))
            self.notify(can_id, bytearray(data), 0.0)
    net = Net()
    node = net.create_node(NODE_ID, B.build_od(c["dict"]))
    log = []
    table = {}
    for i, s, v in reversed(c["rcb"]):
        table[(i, s)] = v
    def rcb(index, subindex, od, **kw):
        v = table.get((index, subindex))
        return None if v is None else B.py_value(v, od.data_type)
    def wcb(index, subindex, od, data, **kw):
        log.append([1, index, subindex, bytes(data)])
    node.add_read_callback(rcb)
    node.add_write_callback(wcb)
    for i, s, b in reversed(c["store"]):
        node.data_store.setdefault(i, {})[s] = bytes(b)
    cl.network = net
    net.subscribe(0x580 + NODE_ID, cl.on_response)
    out = []
    for op in c["ops"]:
        n0, f0 = len(log), len(net.sent)
        if op[0] == "up":
            r = guarded(lambda: bytes(cl.upload(op[1], op[2])))
        else:
            r = guarded(lambda: cl.download(op[1], op[2], bytes(op[3]), op[4]))
        out.append([r, [list(x) for x in net.sent[f0:]], log[n0:]])
    store = sorted((i, s, bytes(b)) for i, subs in node.data_store.items() for s, b in subs.items())
    return [out, [list(x) for x in store]]


B.IMPL_EXTRA.update(client=impl_client, scripted=impl_scripted, api=impl_api)


def impl(c):
    return B.impl(c)


# ------------------------------------------------------------------ Gallina printing
def coq_client(c):
    return "CClient None" if c["resp"] is None else f"CClient (Some {gzlist(c['resp'])})"


B.COQ_EXTRA.update(client=coq_client, scripted=coq_client)


def coq_case(c):
    return B.coq_case(c)


# ------------------------------------------------------------------ oracles
def oracle_client(c, o):
    r = c["resp"]
    if r is not None and len(r) == 8 and r[0] == 0x80:
        code = int.from_bytes(bytes(r[4:8]), "little")
        if not (isinstance(o, Abort) and o.code == code):
            where = "read_response" if c["kind"] == "client" else f"SdoClient.{'upload' if c['op'] == 'up' else 'download'}"
            return ("client_abort_code_wrong", f"{where} on abort frame {bytes(r).hex()}: {o!r}, expected SdoAbortedError 0x{code:08X}")
    return None


def oracle_api(c, o):
    if isinstance(o, Err):
        return ("harness_crash", repr(o))
    ref = R.RefNode(c["dict"], c["rcb"], c["store"])
    per_op, store = o
    for k, (op, (r, frames, delta)) in enumerate(zip(c["ops"], per_op)):
        idx, sub = op[1], op[2]
        w = [(e[1], e[2], bytes(e[3])) for e in delta if e[0] == 1]
        what = f"op {k}: SdoClient.{'upload' if op[0] == 'up' else 'download'} {idx:04X}:{sub:02X}"
        aborts = [bytes(d) for cid, d in frames if cid == 0x580 + NODE_ID and len(d) == 8 and d[0] == 0x80]
        kind, exp = ref.expected_upload(idx, sub) if op[0] == "up" else ref.expected_download(idx, sub, bytes(op[3]))
        if kind == "abort":
            if not isinstance(r, Abort):
                return ("api_refusal_not_raised", f"{what}: expected SdoAbortedError {sorted(hex(x) for x in exp)}, got {r!r}")
            if r.code not in exp:
                return ("api_refusal_wrong_code", f"{what}: SdoAbortedError 0x{r.code:08X}, expected {sorted(hex(x) for x in exp)}")
            if not aborts or int.from_bytes(aborts[-1][4:8], "little") != r.code:
                return ("api_code_differs_from_frame", f"{what}: raised 0x{r.code:08X}, frames {[bytes(d).hex() for _, d in frames]}")
            if (aborts[-1][1] + 256 * aborts[-1][2], aborts[-1][3]) != (idx, sub):
                return ("abort_wrong_multiplexer", f"{what}: abort frame {aborts[-1].hex()}")
            if w:
                return ("refused_write_reached_callback", f"{what}: write callbacks saw {w}")
        else:
            if isinstance(r, Abort) and aborts and int.from_bytes(aborts[-1][4:8], "little") != r.code:
                return ("api_code_differs_from_frame", f"{what}: raised 0x{r.code:08X}, frames {[bytes(d).hex() for _, d in frames]}")
            for i, s, b in w:
                ref.store[(i, s)] = b
    got = {(i, s): bytes(b) for i, s, b in store}
    if got != ref.store:
        return ("store_differs_from_transfers", f"data_store {got} vs accepted writes {ref.store}")
    return None


B.ORACLE_EXTRA.update(client=oracle_client, scripted=oracle_client, api=oracle_api)


def oracle(c, o):
    return B.oracle_run(c, o, refusals=True)


def nontrivial(c):
    return True


# ------------------------------------------------------------------ generators
ACC_ALL = ["rw", "ro", "wo", "const", "rwr", "rww"]
NUMERIC = sorted(R.NUMERIC_BYTES)


def access_cases(rng, tier):
    """every access type x every data type: upload, downloads in every mode"""
    out = []
    for dt in B.ALL_TYPES:
        nb = R.NUMERIC_BYTES.get(dt)
        dic = []
        for k, acc in enumerate(ACC_ALL):
            dic.append(B.var(0x2000 + k, dt, acc, default=B.typed_value(rng, dt)))
            dic.append(B.var(0x2010 + k, dt, acc))
        dic.append(dict(index=0x2020, kind="rec", subs=[B.entry(k, dt, acc, value=B.typed_value(rng, dt)) for k, acc in enumerate(ACC_ALL)]))
        ops = []
        for k in range(len(ACC_ALL)):
            n = nb or rng.choice([1, 3, 4, 9])
            modes = ([0] if 1 <= n <= 4 else []) + ([1] if n == 4 else []) + [2, 3]
            ops += [["u", 0x2000 + k, 0], ["u", 0x2010 + k, 0]]
            for m in modes:
                ops += [["d", 0x2000 + k, 0, B.rbytes(rng, n), m], ["u", 0x2000 + k, 0]]
            ops += [["d", 0x2020, k, B.rbytes(rng, n), rng.choice(modes)], ["u", 0x2020, k]]
        out.append(B.run_case(dic, ops))
    return out


def length_cases(rng):
    """numeric types x payload lengths 0..9 x expedited and segmented, on rw / wo / ro entries"""
    out = []
    for dt in NUMERIC:
        dic = [B.var(0x2000, dt, "rw", default=B.typed_value(rng, dt)), B.var(0x2001, dt, "wo"), B.var(0x2002, dt, "ro", default=B.typed_value(rng, dt)),
               dict(index=0x2003, kind="arr", subs=[B.entry(0, 0x05, "ro", default={"i": 3}), B.entry(1, dt, "rw", default=B.typed_value(rng, dt))])]
        ops = []
        for n in range(0, 10):
            modes = ([0] if 1 <= n <= 4 else []) + ([1] if n == 4 else []) + [2, 3]
            for m in modes:
                ops += [["d", 0x2000, 0, B.rbytes(rng, n), m]]
            ops += [["u", 0x2000, 0], ["d", 0x2001, 0, B.rbytes(rng, n), rng.choice(modes)], ["d", 0x2002, 0, B.rbytes(rng, n), rng.choice(modes)],
                    ["d", 0x2003, rng.choice([1, 2, 200]), B.rbytes(rng, n), rng.choice(modes)], ["u", 0x2003, 2]]
        out.append(B.run_case(dic, ops))
    return out


def missing_cases(rng):
    a = lambda acc="rw", **k: dict(dt=0x05, acc=acc, default={"i": 1}, value=None, **k)
    dic = [dict(index=0x2000, kind="var", subs=[a(sub=0)]),
           dict(index=0x2001, kind="rec", subs=[a(sub=0), a(sub=2), a(sub=255, acc="ro")]),
           dict(index=0x2002, kind="arr", subs=[a(sub=0, acc="ro"), a(sub=1)]),
           dict(index=0x2003, kind="arr", subs=[a(sub=0, acc="ro"), a(sub=2)]),      # no member 1: no template
           dict(index=0x2004, kind="arr", subs=[]), dict(index=0x2005, kind="rec", subs=[]),
           dict(index=0x2006, kind="arr", subs=[a(sub=1, acc="wo")]),
           dict(index=0x2007, kind="arr", subs=[dict(sub=1, dt=0x05, acc="ro", default=None, value={"i": 9})])]
    out = []
    for idx in (0x2000, 0x2001, 0x2002, 0x2003, 0x2004, 0x2005, 0x2006, 0x2007, 0x2008, 0x1FFF, 0x0000, 0xFFFF):
        ops = []
        for sub in (0, 1, 2, 3, 5, 254, 255):
            ops += [["u", idx, sub], ["d", idx, sub, [7], 0], ["d", idx, sub, [8], rng.choice([2, 3])], ["u", idx, sub]]
        out.append(B.run_case(dic, ops))
    return out


def between_cases(rng, n):
    """refusals before, between and after successful transfers, and inside running ones"""
    dic = [B.var(0x2000, R.DOMAIN, default={"b": list(range(1, 21))}), B.var(0x2001, 0x06, "rw", default={"i": 513}), B.var(0x2002, 0x06, "ro", default={"i": 7}),
           B.var(0x2003, 0x06, "wo"), B.var(0x2004, R.DOMAIN, "rw"), B.var(0x2005, 0x07, "const", default={"i": 70000}),
           dict(index=0x2006, kind="arr", subs=[B.entry(0, 0x05, "ro", default={"i": 2}), B.entry(1, 0x04, "rw", default={"i": -5})])]
    good = [["u", 0x2000, 0], ["u", 0x2001, 0], ["d", 0x2001, 0, [1, 2], 0], ["d", 0x2004, 0, list(range(30, 45)), 2], ["d", 0x2003, 0, [9, 9], 3],
            ["u", 0x2006, 9], ["d", 0x2006, 9, [1, 2, 3, 4], 1], ["u", 0x2005, 0], ["d", 0x2004, 0, [], 3], ["u", 0x2004, 0]]
    bad = [["u", 0x2003, 0], ["d", 0x2002, 0, [1, 2], 0], ["d", 0x2002, 0, [1, 2], 2], ["d", 0x2005, 0, [1, 2, 3, 4], 1], ["u", 0x3000, 0], ["d", 0x3000, 0, [1], 3],
           ["u", 0x2001, 1], ["d", 0x2001, 0, [1], 0], ["d", 0x2001, 0, [1, 2, 3], 2], ["d", 0x2006, 1, [1, 2], 0], ["u", 0x2006, 255],
           ["d", 0x2006, 0, [1], 0], ["f", [0xE0, 0, 0x20, 0, 0, 0, 0, 0]], ["f", [0xC2, 1, 0x20, 0, 0, 0, 0, 0]], ["f", [0x70, 0, 0, 0, 0, 0, 0, 0]],
           ["f", [0x10, 1, 2, 3, 4, 5, 6, 7]], ["f", [0xFF]], ["f", [0xC0]]]
    # wrong toggle inside running transfers
    inside = [[["f", [0x40, 0, 0x20, 0, 0, 0, 0, 0]], ["f", [0x60] + [0] * 7], ["f", [0x60] + [0] * 7], ["f", [0x70] + [0] * 7], ["f", [0x70] + [0] * 7], ["f", [0x60] + [0] * 7]],
              [["f", [0x21, 4, 0x20, 0, 9, 0, 0, 0]], ["f", [0x00, 1, 2, 3, 4, 5, 6, 7]], ["f", [0x00, 1, 2, 3, 4, 5, 6, 7]], ["f", [0xE1, 0, 0, 0, 0, 0, 0, 0]],
               ["f", [0x1B, 8, 9, 0, 0, 0, 0, 0]], ["u", 0x2004, 0]],
              [["f", [0x21, 2, 0x20, 0, 2, 0, 0, 0]], ["f", [0x10, 1, 2, 0, 0, 0, 0, 0]], ["f", [0x0B, 1, 2, 0, 0, 0, 0, 0]], ["u", 0x2002, 0]]]
    out = []
    for _ in range(n):
        ops = []
        for _ in range(rng.randrange(3, 9)):
            k = rng.random()
            if k < 0.45: ops.append(rng.choice(good))
            elif k < 0.9: ops.append(rng.choice(bad))
            else: ops += rng.choice(inside)
        out.append(B.run_case(dic, ops))
    for seq in inside:
        out.append(B.run_case(dic, seq))
    return out


def random_cases(rng, n):
    out = []
    for _ in range(n):
        dic = B.random_dict(rng)
        addrs = B.addresses(rng, dic)
        ops = []
        for idx, sub in rng.sample(addrs, min(len(addrs), rng.randrange(2, 7))):
            e = R.lookup(dic, idx, sub)
            nb = R.NUMERIC_BYTES.get(e["dt"]) if isinstance(e, dict) else None
            nn = rng.choice([nb, rng.randrange(0, 10)]) if nb else rng.choice([0, 1, 2, 4, 5, 8, 9])
            modes = ([0] if 1 <= nn <= 4 else []) + ([1] if nn == 4 else []) + [2, 3]
            ops += [["u", idx, sub], ["d", idx, sub, B.rbytes(rng, nn), rng.choice(modes)], ["u", idx, sub]]
            if rng.random() < 0.3:
                ops.append(["f", B.raw_frame(rng, dic, addrs)])
        rcb = []
        if rng.random() < 0.3:
            idx, sub = rng.choice(addrs)
            e = R.lookup(dic, idx, sub)
            if isinstance(e, dict) and e["dt"] in B.ALL_TYPES:
                rcb.append((idx, sub, B.typed_value(rng, e["dt"])))
        out.append(B.run_case(dic, ops, rcb, []))
    return out


TABLE_CODES = [0x05030000, 0x05040000, 0x05040001, 0x05040005, 0x06010000, 0x06010001, 0x06010002, 0x06020000, 0x06040041, 0x06060000,
               0x06070010, 0x06070012, 0x06090011, 0x06090030, 0x060A0023, 0x08000000, 0x08000020, 0x08000024]


def client_cases(rng, tier):
    n = {"quick": 150, "thorough": 3000, "search": 400}[tier]
    codes = TABLE_CODES + [0, 1, 0xFF, 0x100, 0xFFFF, 0x10000, 0x7FFFFFFF, 0x80000000, 0xFFFFFFFF, 0xFFFFFFFE, 0x80, 0x80808080]
    codes += [rng.getrandbits(32) for _ in range(n)] + [1 << k for k in range(32)]
    out = []
    for code in codes:
        idx, sub = rng.choice([(0x2000, 0), (0x1018, 2), (0, 0), (0xFFFF, 255), (rng.getrandbits(16), rng.getrandbits(8))])
        fr = [0x80, idx & 255, idx >> 8, sub] + list(code.to_bytes(4, "little"))
        out.append(dict(kind="client", resp=fr))
        k = rng.random()
        if k < 0.25:
            out.append(dict(kind="scripted", op="up", idx=idx, sub=sub, data=[], force=False, resp=fr))
        elif k < 0.5:
            nn = rng.choice([1, 2, 4, 5, 9])
            out.append(dict(kind="scripted", op="down", idx=idx, sub=sub, data=B.rbytes(rng, nn), force=rng.random() < 0.3, resp=fr))
    # not an abort / truncated / nothing
    for fr in ([0x60, 0, 0x20, 0, 0, 0, 0, 0], [0x43, 0, 0x20, 0, 1, 2, 3, 4], [0x00] * 8, [0x81, 0, 0, 0, 1, 0, 0, 6], [0xA0] + [0] * 7,
               [0x80], [0x80, 0, 0x20, 0], [0x80, 0, 0x20, 0, 1, 2, 3], [0x80, 0, 0x20, 0, 1, 0, 0, 6, 9], [], [0x41]):
        out.append(dict(kind="client", resp=list(fr)))
    out.append(dict(kind="client", resp=None))
    return out


def api_cases(rng, n):
    out = []
    for _ in range(n):
        dic = B.random_dict(rng)
        addrs = B.addresses(rng, dic)
        ops = []
        for idx, sub in rng.sample(addrs, min(len(addrs), rng.randrange(2, 6))):
            e = R.lookup(dic, idx, sub)
            nb = R.NUMERIC_BYTES.get(e["dt"]) if isinstance(e, dict) else None
            nn = rng.choice([nb, rng.randrange(1, 10)]) if nb else rng.choice([1, 2, 4, 5, 8, 9])
            ops += [["up", idx, sub], ["down", idx, sub, B.rbytes(rng, nn), rng.random() < 0.4], ["up", idx, sub]]
        out.append(dict(kind="api", model=False, dict=dic, rcb=[], store=[], ops=ops))
    # the fixed dictionary: every refusal condition through the API
    dic = [B.var(0x2001, 0x06, "rw", default={"i": 513}), B.var(0x2002, 0x06, "ro", default={"i": 7}), B.var(0x2003, 0x06, "wo"),
           B.var(0x2004, R.DOMAIN, "rw"), B.var(0x2005, 0x07, "const", default={"i": 70000})]
    ops = [["up", 0x2003, 0], ["down", 0x2002, 0, [1, 2], False], ["down", 0x2002, 0, [1, 2], True], ["down", 0x2005, 0, [1, 2, 3, 4], False],
           ["up", 0x3000, 0], ["down", 0x3000, 0, [1], True], ["up", 0x2001, 1], ["down", 0x2001, 0, [1], False], ["down", 0x2001, 0, [1, 2, 3], True],
           ["up", 0x2004, 0], ["down", 0x2001, 0, [5, 6], False], ["up", 0x2001, 0], ["down", 0x2004, 0, list(range(9)), False], ["up", 0x2004, 0]]
    out.append(dict(kind="api", model=False, dict=dic, rcb=[], store=[], ops=ops))
    return out


def same_value_cases(rng, n):
    """a read-only / constant entry whose current value sits in data_store (the application set it through the local
    API), default or parameter value; an SDO write carrying EXACTLY the current bytes (expedited and segmented) is
    still a write to a read-only entry: 0x06010002, nothing changed, no callback"""
    out = []
    for _ in range(n):
        dic, store, ops = [], [], []
        for k in range(rng.randrange(2, 6)):
            dt = rng.choice([0x05, 0x06, 0x07, 0x04, 0x1B, 0x08, R.DOMAIN, R.OCTET, R.VISIBLE])
            nb = R.NUMERIC_BYTES.get(dt) or rng.choice([1, 2, 4, 5, 8, 11])
            cur = B.rbytes(rng, nb) if dt != R.VISIBLE else [rng.randrange(65, 91) for _ in range(nb)]
            acc = rng.choice(["ro", "const", "ro", "rw"])
            idx = 0x2000 + k
            how = rng.choice(["store", "store", "default", "value"])
            as_val = {"b": cur}
            if rng.random() < 0.3:
                dic.append(dict(index=idx, kind="rec", subs=[B.entry(0, 0x05, "ro", default={"i": 1}),
                                                             B.entry(1, dt, acc, default=as_val if how == "default" else None, value=as_val if how == "value" else None)]))
                sub = 1
            else:
                dic.append(B.var(idx, dt, acc, default=as_val if how == "default" else None, value=as_val if how == "value" else None))
                sub = 0
            if how == "store":
                store.append((idx, sub, cur))
            modes = ([0] if 1 <= nb <= 4 else []) + ([1] if nb == 4 else []) + [2, 3]
            ops += [["u", idx, sub], ["d", idx, sub, cur, rng.choice(modes)], ["d", idx, sub, cur, rng.choice(modes)], ["u", idx, sub]]
            if rng.random() < 0.5:
                other = [x ^ 1 for x in cur]
                ops += [["d", idx, sub, other, rng.choice(modes)], ["u", idx, sub], ["d", idx, sub, cur, rng.choice(modes)]]
            if 1 <= nb <= 4 and rng.random() < 0.5:        # the same as a raw expedited frame
                ops += [["f", [0x23 | ((4 - nb) << 2), idx & 255, idx >> 8, sub] + cur + [0] * (4 - nb)]]
        out.append(B.run_case(dic, ops, [], store))
    return out


def gen_cases(rng, tier):
    reps = {"quick": 1, "thorough": 4, "search": 2}[tier]
    cases = []
    for _ in range(reps):
        cases += access_cases(rng, tier)
        cases += length_cases(rng)
        cases += missing_cases(rng)
    cases += between_cases(rng, {"quick": 60, "thorough": 600, "search": 200}[tier])
    cases += random_cases(rng, {"quick": 150, "thorough": 1500, "search": 500}[tier])
    cases += same_value_cases(rng, {"quick": 60, "thorough": 600, "search": 300}[tier])
    cases += B.partial_segment_cases(rng, {"quick": 40, "thorough": 400, "search": 200}[tier])     # incl. duplicated segments (wrong toggle)
    cases += B.callback_cases(rng, {"quick": 30, "thorough": 300, "search": 150}[tier])
    cases += client_cases(rng, tier)
    cases += api_cases(rng, {"quick": 60, "thorough": 600, "search": 200}[tier])
    return cases


def shrink(c):
    if c["kind"] == "run":
        yield from B.shrink(c)
    elif c["kind"] == "api":
        ops = c["ops"]
        for i in range(len(ops)):
            yield dict(c, ops=ops[:i] + ops[i + 1:])
        if len(c["dict"]) > 1:
            for i in range(len(c["dict"])):
                yield dict(c, dict=c["dict"][:i] + c["dict"][i + 1:])


def neighbours(c, rng):
    if c["kind"] == "run":
        yield from B.neighbours(c, rng)
