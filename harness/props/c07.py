"""C07 - a disturbed SDO transfer fails loudly and does not poison the next one
(expedited + segmented part; block transfers belong to C12/C13).

Runner, oracle and printers are those of props/c01.py: the real SdoClient against the Python
reference server behind a medium that applies ONE disturbance to the response of the k-th frame
the client sends in a transfer; every disturbed transfer is followed by undisturbed ones on the
same client and server."""
from props import c01
from props.c01 import (impl, coq_case, oracle, MODEL_VO, COQ_IMPORTS, COQ_RUN, COQ_CASE_TYPE, T, one, dl_x, ul_x,
                       rdata, MUXES, shrink)
from ref.sdo_ref_server import RefServer, mux_key, DEFAULT_STYLE
from ref import libsrv_faults


def impl(c):
    return libsrv_faults.run(c) if c.get("kind") == "libsrv" else c01.impl(c)


def oracle(c, o):
    return libsrv_faults.check(c, o) if c.get("kind") == "libsrv" else c01.oracle(c, o)


def shrink(c):
    return [] if c.get("kind") == "libsrv" else c01.shrink(c)


PROP = "C07"
ANCHORS = c01.ANCHORS
RULE = ("(buffered open with an explicit flush / text line buffering included: the wrapper re-offers the bytes of a failed "
        "flush at close) a case = [disturbed transfer, clean download of new data to the same object, clean upload of it] on one client "
        "and one reference server; every protocol step k of the disturbed transfer x every disturbance kind (response "
        "lost, request lost, response late, abort received, toggle flipped, specifier changed, multiplexer changed, "
        "response duplicated, stale frame before the request / between request and response / left over after a "
        "time-out) x payload lengths 0,1,4,5,7,8,14,15 x {download, forced segmentation, unbuffered open with and "
        "without size, upload, raw read} x server styles; non-trivial = the disturbance hits a frame the client "
        "really sends; distinct by canonical JSON of the case")
TRUSTED = c01.TRUSTED + ["real time-out timing is not modelled: RESPONSE_TIMEOUT is lowered to 2 ms through the class "
                         "attribute and an empty queue after the synchronous send stands for the time-out"]
ASSUMPTIONS = c01.ASSUMPTIONS + [
    "one disturbance per transfer; the server itself stays conformant",
    "stale frames are responses of an earlier transfer that the SDO protocol can tell apart from the genuine one "
    "(other command specifier, other multiplexer, other toggle bit) or are identical to it; a stale upload segment "
    "with the expected toggle bit, or a stale initiate response of the same object with other data, is "
    "indistinguishable from a genuine response within CiA 301 and is excluded",
    "'wrong multiplexer' applies to responses that carry one (initiate responses)"]

LENS = [0, 1, 4, 5, 7, 8, 14, 15]
OTHER = (0x2F00, 9)


def n_requests_dl(n, variant):
    sized = variant in ("download", "force", "b0_size", "b1024_size_flush", "text_size_line")
    forced = variant == "force"
    if sized and 1 <= n <= 4 and not forced:
        return 1
    segs = (n + 6) // 7
    if sized:
        return 1 + max(segs, 1) if n == 0 else 1 + segs
    return 1 + segs + 1


def n_requests_ul(value, style):
    """count the requests of a conformant upload by talking to the reference server"""
    s = RefServer({mux_key(1, 1): bytes(value)})
    s.set_style(style)
    r = s.step(bytes([0x40, 1, 0, 1, 0, 0, 0, 0]))
    n, t = 1, 0
    if r[0] & 2:
        return n
    while True:
        r = s.step(bytes([0x60 | (t << 4)]) + bytes(7))
        n += 1
        t ^= 1
        if r[0] & 1:
            return n


def stale_frames(mux, k, upload):
    om = [OTHER[0] & 255, OTHER[0] >> 8, OTHER[1]]
    fr = [[0x60] + om + [0, 0, 0, 0], [0x20] + [0] * 7, [0x30] + [0] * 7, [0x43] + om + [1, 2, 3, 4],
          [0x41] + om + [9, 0, 0, 0], [0x80] + om + [0, 0, 4, 5]]
    if upload:
        if k >= 1:
            t = 1 - ((k - 1) % 2)            # a segment response whose toggle is not the expected one
            fr.append([(t << 4) | 0x01, 7, 7, 7, 7, 7, 7, 7])
            fr.append([0x43] + [mux[0] & 255, mux[0] >> 8, mux[1]] + [9, 9, 9, 9])
        else:
            fr.append([0x00, 7, 7, 7, 7, 7, 7, 7])
            fr.append([0x11, 7, 7, 7, 7, 7, 7, 7])
    else:
        fr.append([0x00, 7, 7, 7, 7, 7, 7, 7])
        fr.append([0x60] + [mux[0] & 255, mux[0] >> 8, mux[1]] + [0, 0, 0, 0])
    return fr


def faults_for(mux, k, upload, rng, tier):
    fs = [dict(f="lost"), dict(f="lostreq"), dict(f="delay"), dict(f="dup"),
          dict(f="replace", frames=[[0x80, mux[0] & 255, mux[0] >> 8, mux[1]] + list(rng.choice(((0, 0, 0, 8), (0, 0, 4, 5), (0x21, 0, 0, 8))))]),
          dict(f="replace", frames=[]),
          dict(f="xor0", m=16)]
    ms = [0x20, 0x40, 0x60, 0x80, 0xA0, 0xC0, 0xE0]
    for m in (ms if tier == "thorough" else rng.sample(ms, 2)):
        fs.append(dict(f="xor0", m=m))
    if k == 0 or not upload:
        fs.append(dict(f="mux", m=[(mux[0] + 1) & 255, mux[0] >> 8, mux[1]]))
        fs.append(dict(f="mux", m=[mux[0] & 255, mux[0] >> 8, (mux[1] + 1) & 255]))
    st = stale_frames(mux, k, upload)
    for fr in (st if tier == "thorough" else rng.sample(st, 3)):
        fs.append(dict(f="stale", frame=fr))
    return fs


def follow_up(rng, mux, n):
    """clean transfers after the disturbed one: new data to the same object, read back"""
    d2 = rdata(rng, rng.choice((n, n + 1, 3, 9)))
    v = rng.choice(("download", "b0_nosize", "force"))
    return [T(dl_x(rng, len(d2), v, mux=mux, data=d2)), T(ul_x(rng, rng.choice(("upload", "raw")), mux), rng.choice(c01.STYLES[:5]))]


UL_STYLES = [{}, {"size_ind": False}, {"expedite": False}, {"segs": [1, 0, 2, 0, 0, 7, 3], "lazy_end": True}, {"exp_size": False}]


def gen_cases(rng, tier):
    cases = []
    pre_pool = [[0x60, 0, 0x20, 0, 0, 0, 0, 0], [0x00, 1, 2, 3, 4, 5, 6, 7], [0x43, 0, 0x20, 0, 1, 2, 3, 4], [0x80, 0, 0, 0, 0, 0, 4, 5]]
    for n in LENS:
        # ---- disturbed downloads
        for variant in ("download", "force", "b0_nosize", "b0_size", "b1024_size_flush", "text_size_line", "b1024_nosize_flush"):
            nreq = n_requests_dl(n, variant)
            for k in range(nreq + (1 if tier == "thorough" else 0)):
                mux = rng.choice(MUXES)
                for f in faults_for(mux, k, False, rng, tier):
                    x = dl_x(rng, n, variant, mux=mux)
                    pre = [rng.choice(pre_pool)] if rng.random() < 0.15 else []
                    ts = [T(x, fault=[k, f], pre=pre)] + follow_up(rng, mux, n)
                    if rng.random() < 0.3:
                        ts[1]["pre"] = [rng.choice(pre_pool)]
                    cases.append(one("dl_%s_%s" % (variant, f["f"]), ts, store=[[mux_key(*mux), rdata(rng, 3)]]))
        # ---- disturbed uploads
        for si, st in enumerate(UL_STYLES):
            val = rdata(rng, n)
            nreq = n_requests_ul(val, st)
            for k in range(nreq + (1 if tier == "thorough" else 0)):
                mux = rng.choice(MUXES)
                for f in faults_for(mux, k, True, rng, tier):
                    mode = rng.choice(("upload", "raw"))
                    pre = [rng.choice(pre_pool)] if rng.random() < 0.15 else []
                    ts = [T(ul_x(rng, mode, mux), st, fault=[k, f], pre=pre)] + follow_up(rng, mux, n)
                    if rng.random() < 0.3:
                        ts[1]["pre"] = [rng.choice(pre_pool)]
                    cases.append(one("ul_%s_%s" % (mode, f["f"]), ts, store=[[mux_key(*mux), val]]))
    # ---- stale frames only (before the request), every kind of transfer
    for n in LENS:
        mux = rng.choice(MUXES)
        val = rdata(rng, n)
        for pre in pre_pool:
            cases.append(one("pre_dl", [T(dl_x(rng, n, rng.choice(("download", "b0_nosize")), mux=mux), pre=[pre, pre])]
                             + follow_up(rng, mux, n)))
            cases.append(one("pre_ul", [T(ul_x(rng, "upload", mux), rng.choice(UL_STYLES), pre=[pre])] + follow_up(rng, mux, n),
                             store=[[mux_key(*mux), val]]))
    # ---- two disturbed transfers in a row, then clean ones
    for _ in range({"quick": 40, "thorough": 300, "search": 100}[tier]):
        mux = rng.choice(MUXES)
        n = rng.choice(LENS)
        val = rdata(rng, n)
        ts = []
        for _ in range(2):
            up = rng.random() < 0.5
            k = rng.randrange(0, 4)
            f = rng.choice(faults_for(mux, k, up, rng, "quick"))
            if up:
                ts.append(T(ul_x(rng, rng.choice(("upload", "raw")), mux), rng.choice(UL_STYLES), fault=[k, f]))
            else:
                ts.append(T(dl_x(rng, n, rng.choice(("download", "force", "b0_nosize", "b0_size")), mux=mux), fault=[k, f]))
        cases.append(one("two_faults", ts + follow_up(rng, mux, n), store=[[mux_key(*mux), val]]))
    lib_cases = libsrv_faults.gen(rng, tier)      # the library's own server as the peer (oracle only)
    if tier == "quick":
        # keep the quick tier within its time budget: a seeded sample of the grid, every kind kept
        keep = []
        by = {}
        for c in cases:
            by.setdefault(c["kind"], []).append(c)
        for kind, cs in sorted(by.items()):
            rng.shuffle(cs)
            keep.extend(cs[:max(40, len(cs) // 3)])
        cases = keep
    return cases + lib_cases


def nontrivial(case):
    if case.get("kind") == "libsrv":
        return True
    return any(t.get("fault") is not None or t.get("pre") for t in case["ts"])


def neighbours(case, rng):
    return []
