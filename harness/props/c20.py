"""C20 - physical, described and bit-field views agree with the raw value (SDO, PDO and plain variables)."""
import logging
from fractions import Fraction

from vlib.obs import S, Err, Abort, guarded, gz, gzlist, gstr, glist, gopt, E_OVERFLOW

PROP = "C20"
ANCHORS = [('canopen.variable', 'Variable.phys'), ('canopen.variable', 'Variable.desc'), ('canopen.variable', 'Variable.bits'), ('canopen.variable', 'Variable.raw'), ('canopen.variable', 'Bits'), ('canopen.objectdictionary', 'ODArray.__getitem__'), ('canopen.variable', 'Variable.read'), ('canopen.variable', 'Variable.write'), ('canopen.objectdictionary', 'ODVariable.encode_phys'), ('canopen.objectdictionary', 'ODVariable.decode_phys'), ('canopen.objectdictionary', 'ODVariable.encode_desc'), ('canopen.objectdictionary', 'ODVariable.decode_desc'), ('canopen.objectdictionary', 'ODVariable.encode_bits'), ('canopen.objectdictionary', 'ODVariable.decode_bits'), ('canopen.objectdictionary', 'ODVariable.add_value_description'), ('canopen.objectdictionary', 'ODVariable.add_bit_definition')]
MODEL_VO = ["theories/Model/Codec.vo", "theories/Model/Views.vo"]
COQ_IMPORTS = "From CV Require Import Model.Codec Model.Views."
COQ_RUN = "run_views"
COQ_CASE_TYPE = "views_case"
RULE = ("(variables: plain VAR objects and members of arrays declaring only sub 0 and sub 1; stores that refuse reads) cases = operation lists (set/get raw, phys, desc, bits[key]) on an integer variable behind a plain byte store, "
        "an SDO variable (RemoteNode against LocalNode on a synchronous bus) or a PDO variable (PdoMap.add_variable, "
        "byte-aligned, with neighbours), observed after every step: returned value / exception class and the bytes of the "
        "whole buffer; plus direct calls of encode/decode_bits, _desc, _phys on the dictionary object. Every contiguous "
        "bit range inside 32 bits in each spelling (bit number, list, slice, defined name), field values 0 / max / random "
        "(thorough: all values for ranges up to 12 bits); description tables of 1..20 entries with repeated descriptions "
        "and re-added values; factors 0.5 0.25 2 8 -4 1 2 -3 10 1000 0.1 1e-3 1e3 ... over every integer type, raw values "
        "at the ends of the type's range and random, offsets of 0, 1/4, 3/8, 1/2 (ties) of a step. non-trivial = at least "
        "one assignment through a view, or a non-empty table / non-zero value for the direct calls; distinct by canonical "
        "JSON of the case")
EXHAUSTIVE = {"thorough": True}
EXPLANATION = ("thorough tier sweeps all field values of every contiguous range of up to 12 bits inside 32 bits in each "
               "spelling, and all raw values of the 8- and 16-bit types for each factor, through the oracle (not the model)")
TRUSTED = ["modelled, not verified: binary64 rounding of value/factor and raw*factor (model over Q; model comparison "
           "only on cases where every float operation is exact, otherwise the oracle's half-step bound with one ulp per "
           "inexact float operation)",
           "the byte store behind the accessors: SDO transfer (C01/C02) and PdoVariable get_data/set_data (C05) are modelled "
           "as a byte cell; only byte-aligned full-length PDO mappings are used"]
ASSUMPTIONS = ["floats are exact rationals (Q) in the model", "a successful write of the raw value is read back (the one "
               "law asked of a store); proved for the byte cell from the C04 codec theorems"]

logging.disable(logging.CRITICAL)

# CiA 301 integer types written here from the standard, NOT read from the library: type -> (signed, bits)
INT_TYPES = {0x02: (True, 8), 0x03: (True, 16), 0x10: (True, 24), 0x04: (True, 32), 0x12: (True, 40),
             0x13: (True, 48), 0x14: (True, 56), 0x15: (True, 64),
             0x05: (False, 8), 0x06: (False, 16), 0x16: (False, 24), 0x07: (False, 32), 0x18: (False, 40),
             0x19: (False, 48), 0x1A: (False, 56), 0x1B: (False, 64)}
U8 = 0x05


def rng_of(dt):
    signed, w = INT_TYPES[dt]
    return (-(1 << (w - 1)), (1 << (w - 1)) - 1) if signed else (0, (1 << w) - 1)


def enc(dt, v):
    signed, w = INT_TYPES[dt]
    return v.to_bytes(w // 8, "little", signed=signed)


def dec(dt, b):
    return int.from_bytes(bytes(b), "little", signed=INT_TYPES[dt][0])


# ------------------------------------------------------------------ numbers
# a number is [num, den, is_int]: the Python int num (den = 1) or the float num/den (exact, den a power of two)
def num_of(x):
    if isinstance(x, int):
        return [x, 1, 1]
    fr = Fraction(x)
    return [fr.numerator, fr.denominator, 0]


def frac(n):
    return Fraction(n[0], n[1])


def pyval(n):
    if n[2]:
        return n[0]
    x = n[0] / n[1]          # int / int: correctly rounded, exact when representable
    assert Fraction(x) == Fraction(n[0], n[1]), n
    return x


def f64_exact(x):
    """is the rational x a finite binary64 number"""
    if x == 0:
        return True
    n, d = abs(x.numerator), x.denominator
    if d & (d - 1):
        return False
    e = -(d.bit_length() - 1)
    while n % 2 == 0:
        n //= 2
        e += 1
    return n.bit_length() <= 53 and e >= -1074 and e + n.bit_length() - 1 <= 1023


def ulp(x):
    """spacing of binary64 numbers in the binade of |x| (normal range)"""
    if x == 0:
        return Fraction(0)
    n, d = abs(x.numerator), x.denominator
    e = n.bit_length() - d.bit_length()
    if Fraction(n, d) < Fraction(2) ** e:
        e -= 1
    return Fraction(2) ** (e - 52)


def div_steps(v, f):
    """number of inexact binary64 operations in  value / factor  (0 = the float result is the exact quotient)"""
    if f[0] == 0:
        return 0
    q = frac(v) / frac(f)
    steps = 0 if f64_exact(q) else 1
    if not (v[2] and f[2]):           # mixed or float operands: an int operand is converted first
        steps += (0 if f64_exact(frac(v)) else 1) + (0 if f64_exact(frac(f)) else 1)
    return steps


def mul_steps(raw, f):
    """inexact operations in  raw * factor"""
    if f[2]:
        return 0                      # int * int
    return (0 if f64_exact(Fraction(raw)) else 1) + (0 if f64_exact(raw * frac(f)) else 1)


def phys_exact(v, f, dt, raw0):
    """every float operation of  phys = v  followed by reading phys is exact (model comparable);
    raw0 = what the store holds before (read back when the assignment is refused)"""
    if f[0] == 0:
        return True
    if div_steps(v, f):
        return False
    q = frac(v) / frac(f)
    raw = rhe(q)
    lo, hi = rng_of(dt)
    if not lo <= raw <= hi:
        raw = raw0
    return mul_steps(raw, f) == 0


def rhe(q):
    """nearest integer, ties to even (plain arithmetic)"""
    fl = q.numerator // q.denominator
    r = q - fl
    if r < Fraction(1, 2): return fl
    if r > Fraction(1, 2): return fl + 1
    return fl if fl % 2 == 0 else fl + 1


# ------------------------------------------------------------------ implementation side
def py_key(key):
    if "int" in key: return key["int"]
    if "list" in key: return list(key["list"])
    if "slice" in key: return slice(*key["slice"])
    return key["name"]


def make_od(c, index=0x2000):
    from canopen.objectdictionary import ODVariable
    v = ODVariable("v", index, 0)
    v.data_type = c["dt"]
    if "f" in c:
        v.factor = pyval(c["f"])
    for val, d in c.get("descs", []):
        v.add_value_description(val, d)
    for name, bits in c.get("defs", []):
        v.add_bit_definition(name, list(bits))
    return v


def _place(c, odv):
    """where the object lives: a plain VAR at 0x2000 sub 0, or (key "member": sub) a member of an ARRAY 0x2000 that
    declares only sub 0 and sub 1 - the object then is the template (sub 1) or generated from it (sub >= 2).
    returns (dictionary entry to add, ODVariable under test, subindex)"""
    sub = c.get("member")
    if sub is None:
        return odv, odv, 0
    from canopen.objectdictionary import ODArray, ODVariable
    arr = ODArray("arr", 0x2000)
    n = ODVariable("count", 0x2000, 0)
    n.data_type = U8
    arr.add_member(n)
    odv.name, odv.subindex = "item", 1
    arr.add_member(odv)
    return arr, arr[sub], sub


ABORT_WRITE_ONLY = 0x06010001


def _mem_store(c, odv):
    import canopen.variable
    from canopen.sdo.exceptions import SdoAbortedError
    entry, member, sub = _place(c, odv)
    rfail = bool(c.get("rfail"))

    class MemVar(canopen.variable.Variable):
        def __init__(self, od, data):
            super().__init__(od)
            self._d = bytes(data)

        def get_data(self):
            if rfail:                      # a store that takes writes but refuses reads
                raise SdoAbortedError(ABORT_WRITE_ONLY)
            return self._d

        def set_data(self, data):
            self._d = bytes(data)

    var = MemVar(member, bytes(c["cur"]))

    def poke(bs, how):
        if how % 2:
            var._d = bytes(bs)            # the storage itself changes
        else:
            var.data = bytes(bs)          # a direct write of the data through the same object
    return var, (lambda: bytes(var._d)), poke


def _sdo_store(c, odv):
    import canopen

    class Net(canopen.Network):
        def send_message(self, can_id, data, remote=False):
            self.notify(can_id, bytearray(data), 0.0)

    entry, member, sub = _place(c, odv)
    if c.get("rfail"):
        odv.access_type = "wo"            # the device refuses uploads with 0x06010001, downloads work
    od = canopen.ObjectDictionary()
    od.add_object(entry)
    net = Net()
    loc = canopen.LocalNode(1, od)
    rem = canopen.RemoteNode(1, od)
    loc.associate_network(net)
    rem.associate_network(net)
    rem.sdo.RESPONSE_TIMEOUT = 0.01
    loc.set_data(0x2000, sub, bytes(c["cur"]))

    def acc(node):
        return node.sdo[0x2000] if c.get("member") is None else node.sdo[0x2000][sub]

    def poke(bs, how):
        if how % 3 == 0:
            loc.set_data(0x2000, sub, bytes(bs))               # the device changes its object
        elif how % 3 == 1:
            acc(loc).data = bytes(bs)                          # ... through its own accessor
        else:
            acc(rem).data = bytes(bs)                          # a second accessor of the master downloads it
    return acc(rem), (lambda: bytes(loc.get_data(0x2000, sub))), poke


def _pdo_store(c, odv):
    import canopen
    from canopen.objectdictionary import ODVariable
    entry, member, sub = _place(c, odv)
    od = canopen.ObjectDictionary()
    od.add_object(entry)
    n_pre, n_post = len(c["pre"]), len(c["post"])
    for k in range(n_pre + n_post):
        nb = ODVariable(f"n{k}", 0x2100 + k, 0)
        nb.data_type = U8
        od.add_object(nb)
    rem = canopen.RemoteNode(1, od)
    m = canopen.pdo.PdoMap(rem.pdo, None, None)
    pre = [m.add_variable(0x2100 + k) for k in range(n_pre)]
    var = m.add_variable(0x2000, sub)
    post = [m.add_variable(0x2100 + n_pre + k) for k in range(n_post)]
    for pv, b in zip(pre + post, list(c["pre"]) + list(c["post"])):
        pv.raw = b
    var.data = bytes(c["cur"])
    m.cob_id = 0x181

    def poke(bs, how):
        frame = bytes(c["pre"]) + bytes(bs) + bytes(c["post"])
        if how % 2 == 0:
            m.on_message(0x181, bytearray(frame), 1.0 + how)   # a newly received PDO
        else:
            m.data[:] = frame                                  # the application fills the message buffer
    return var, (lambda: bytes(m.data)), poke


def fraction_obs(x):
    if isinstance(x, bool) or not isinstance(x, (int, float)):
        raise TypeError(f"phys is {type(x).__name__}")
    if isinstance(x, float) and (x != x or x in (float("inf"), float("-inf"))):
        return Err(E_OVERFLOW, repr(x))
    fr = Fraction(x)
    return [fr.numerator, fr.denominator]


def do_op(var, op, poke=None):
    k = op[0]
    if k == "set_raw":
        var.raw = op[1]
    elif k == "get_raw":
        r = var.raw
        if isinstance(r, bool) or not isinstance(r, int):
            raise TypeError(f"raw is {type(r).__name__}")
        return r
    elif k == "set_phys":
        var.phys = pyval(op[1])
    elif k == "get_phys":
        return fraction_obs(var.phys)
    elif k == "set_desc":
        var.desc = op[1]
    elif k == "get_desc":
        return S(var.desc)
    elif k == "write":                    # the method route: var.write(value, fmt)
        inner = op[2]
        value = pyval(inner[1]) if inner[0] == "set_phys" else inner[1]
        r = var.write(value, op[1])
        if r is not None:
            raise TypeError(f"write returned {r!r}")
    elif k == "read":                     # var.read(fmt)
        r = var.read(op[1])
        if op[1] == "phys":
            return fraction_obs(r)
        if op[1] == "desc":
            return S(r)
        if op[1] == "raw":
            if isinstance(r, bool) or not isinstance(r, int):
                raise TypeError(f"raw is {type(r).__name__}")
            return r
        if r is not None:
            raise TypeError(f"read({op[1]!r}) returned {r!r}")
    elif k == "poke":                     # the stored value changes by a route other than this accessor
        poke(op[1], op[2])
    elif k == "add_desc":                 # the application changes the table between two uses
        var.od.add_value_description(op[1], op[2])
    elif k == "set_bits":
        var.bits[py_key(op[1])] = op[2]
    elif k in ("get_bits", "held_bits"):
        if k == "held_bits":              # one Bits object: assign, then read the same object
            b = var.bits
            b[py_key(op[1])] = op[2]
            r = b[py_key(op[1])]
        else:
            r = var.bits[py_key(op[1])]
        if isinstance(r, bool) or not isinstance(r, int):
            raise TypeError(f"bits is {type(r).__name__}")
        return r
    else:
        raise AssertionError(k)
    return None


def impl(c):
    return guarded(_impl, c)


def _impl(c):
    k = c["kind"]
    if k == "bits_od":
        odv = make_od(dict(c, dt=0x07))
        sel = c["sel"]["name"] if "name" in c["sel"] else list(c["sel"]["list"])
        return [guarded(lambda: odv.encode_bits(c["raw"], sel, c["v"])),
                guarded(lambda: odv.decode_bits(c["raw"], sel))]
    if k == "desc_od":
        odv = make_od(dict(c, dt=0x04))
        return [[guarded(lambda v=v: S(odv.decode_desc(v))) for v in c["vs"]],
                [guarded(lambda d=d: odv.encode_desc(d)) for d in c["ds"]]]
    if k == "phys_od":
        odv = make_od(c)
        return [guarded(lambda: odv.encode_phys(pyval(c["v"]))),
                guarded(lambda: fraction_obs(odv.decode_phys(c["raw"])))]
    odv = make_od(c)
    var, buf, poke = {"mem": _mem_store, "sdo": _sdo_store, "pdo": _pdo_store}[c["store"]](c, odv)
    if k == "ops":
        out = []
        for op in c["ops"]:
            r = guarded(do_op, var, op, poke)
            out.append([r, buf()])
        return out
    if k == "bits_sweep":
        key = py_key(c["key"])
        raws, gets = [], []
        for v in range(1 << (c["hi"] - c["lo"] + 1)):
            var.data = bytes(c["cur"])
            var.bits[key] = v
            raws.append(var.raw)
            gets.append(var.bits[key])
        return [raws, gets]
    if k == "phys_sweep":
        lo, hi = rng_of(c["dt"])
        f = frac(c["f"])
        raws, back = [], []
        method = c.get("route") == "method"          # var.write(v, "phys") / var.read(...) instead of the attributes
        for raw in range(lo, hi + 1):
            if method:
                e = guarded(var.write, _sweep_value(raw, c), "phys")
            else:
                e = guarded(setattr, var, "phys", _sweep_value(raw, c))
            if isinstance(e, Err):            # e.g. a tie at the end of the range rounds out of it
                raws.append(e)
                back.append(None)
                continue
            raws.append(var.read("raw") if method else var.raw)
            back.append(fraction_obs(var.read("phys") if method else var.phys))
        return [raws, back]
    raise AssertionError(k)


def _sweep_value(raw, c):
    """the physical value requested for raw in a phys_sweep: (raw + off) * factor, rounded to a float once"""
    x = (raw + Fraction(c["off"][0], c["off"][1])) * frac(c["f"])
    if c["f"][2] and x.denominator == 1:
        return int(x)
    return x.numerator / x.denominator


# ------------------------------------------------------------------ oracle (plain arithmetic on Python ints / Fractions)
def table_of(pairs):
    t = {}
    for k, v in pairs:
        t[k] = v
    return t


def key_range(key, names):
    """(lo, hi) when the key spells a contiguous range in one of the four ways of the property, else None"""
    if "int" in key:
        l = [key["int"]]
    elif "list" in key:
        l = key["list"]
    elif "name" in key:
        l = names.get(key["name"])
        if l is None:
            return None
    else:
        a, b, st = key["slice"]
        if b is None or st not in (None, 1):
            return None
        l = list(range(0 if a is None else a, b))
    if not l:
        return None
    lo, hi = min(l), max(l)
    if lo < 0 or set(l) != set(range(lo, hi + 1)):
        return None
    return lo, hi


def field_set(raw, lo, hi, v):
    mask = ((1 << (hi - lo + 1)) - 1) << lo
    return (raw & ~mask) | (v << lo)


def field_get(raw, lo, hi):
    return (raw >> lo) & ((1 << (hi - lo + 1)) - 1)


def phys_set_check(v, f, dt, res, stored_raw, tag):
    """the raw value written by  phys = v  is a nearest integer of v/f (one ulp of v/f per inexact float operation)"""
    if f[0] == 0:
        return None
    q = frac(v) / frac(f)
    allow = div_steps(v, f) * ulp(q)
    lo, hi = rng_of(dt)
    k_lo = -((-(q - Fraction(1, 2) - allow)).__floor__())      # smallest and largest integer that count as nearest
    k_hi = (q + Fraction(1, 2) + allow).__floor__()
    near = f"{k_lo}..{k_hi}" if k_hi - k_lo > 3 else str(list(range(k_lo, k_hi + 1)))
    if isinstance(res, Err):
        if lo <= k_lo and k_hi <= hi:
            return (f"{tag}_refused", f"phys={float(frac(v))!r} factor={float(frac(f))!r}: {res!r} although {near} "
                                      f"fits type 0x{dt:X}")
        return None
    if not k_lo <= stored_raw <= k_hi:
        return (f"{tag}_not_nearest", f"phys={float(frac(v))!r} factor={float(frac(f))!r}: raw={stored_raw}, "
                                      f"value/factor={float(q)!r}, nearest integer(s) {near}")
    return None


def phys_back_check(v, f, raw, p, tag):
    """reading back differs from the request by at most half a scaling step"""
    if isinstance(p, Err):
        return (f"{tag}_read_failed", f"phys read-back raised {p!r}")
    q = frac(v) / frac(f)
    fa = abs(frac(f))
    allow = fa * div_steps(v, f) * ulp(q) + mul_steps(raw, f) * ulp(raw * frac(f))
    got = Fraction(p[0], p[1])
    if abs(frac(v) - got) > fa / 2 + allow:
        return (f"{tag}_half_step", f"phys={float(frac(v))!r} factor={float(frac(f))!r}: read back {float(got)!r} "
                                    f"(raw {raw}), off by {float(abs(frac(v) - got))!r} > half a step")
    return None


FMT_SETTER = {"raw": "set_raw", "phys": "set_phys", "desc": "set_desc"}
FMT_GETTER = {"raw": "get_raw", "phys": "get_phys", "desc": "get_desc"}
FMT_CODE = {"raw": 0, "phys": 1, "desc": 2}


def oracle(c, o):
    k = c["kind"]
    if isinstance(o, Err):
        return ("runner_error", f"the whole case raised {o!r}")
    if k == "bits_od":
        names = table_of(c.get("defs", []))
        key = c["sel"]
        r = key_range(key, names)
        if r is None:
            return None
        lo, hi = r
        raw, v = c["raw"], c["v"]
        if o[1] != field_get(raw, lo, hi):
            return ("bits_get_wrong", f"decode_bits({raw:#x}, {key}) = {o[1]!r}, bits {lo}..{hi} are {field_get(raw, lo, hi):#x}")
        if 0 <= v < (1 << (hi - lo + 1)) and o[0] != field_set(raw, lo, hi, v):
            return ("bits_set_wrong", f"encode_bits({raw:#x}, {key}, {v:#x}) = {o[0]!r}, expected {field_set(raw, lo, hi, v):#x}")
        return None
    if k == "desc_od":
        t = table_of(c["descs"])
        for v, r in zip(c["vs"], o[0]):
            if v in t:
                if r != S(t[v]):
                    return ("desc_get_wrong", f"decode_desc({v}) = {r!r}, table says {t[v]!r}")
            elif not isinstance(r, Err):
                return ("desc_get_invented", f"decode_desc({v}) = {r!r} but the value has no description")
        for d, r in zip(c["ds"], o[1]):
            cands = [v for v, dd in t.items() if dd == d]
            if cands:
                if isinstance(r, Err) or isinstance(r, bool) or r not in cands:
                    return ("desc_set_wrong", f"encode_desc({d!r}) = {r!r}, values named so: {cands}")
            elif not isinstance(r, Err):
                return ("desc_set_invented", f"encode_desc({d!r}) = {r!r} but no value has that description")
        return None
    if k == "phys_od":
        v, f, dt = c["v"], c["f"], c["dt"]
        if f[0] != 0:
            q = frac(v) / frac(f)
            allow = div_steps(v, f) * ulp(q)
            if isinstance(o[0], Err) or isinstance(o[0], bool) or not isinstance(o[0], int) or \
                    abs(o[0] - q) > Fraction(1, 2) + allow:
                return ("phys_not_nearest", f"encode_phys({float(frac(v))!r}) factor {float(frac(f))!r} = {o[0]!r}, "
                                            f"value/factor = {float(q)!r}")
            raw = c["raw"]
            want = raw * frac(f)
            if isinstance(o[1], Err) or abs(Fraction(o[1][0], o[1][1]) - want) > mul_steps(raw, f) * ulp(want):
                return ("phys_decode_wrong", f"decode_phys({raw}) factor {float(frac(f))!r} = {o[1]!r}")
        return None
    if k == "bits_sweep":
        lo, hi, dt = c["lo"], c["hi"], c["dt"]
        raw0 = dec(dt, c["cur"])
        for v in range(1 << (hi - lo + 1)):
            if o[0][v] != field_set(raw0, lo, hi, v) or o[1][v] != v:
                return ("bits_set_wrong", f"type 0x{dt:X} raw {raw0:#x} bits[{c['key']}] = {v:#x}: raw became {o[0][v]!r}, "
                                          f"expected {field_set(raw0, lo, hi, v):#x}; read back {o[1][v]!r}")
        return None
    if k == "phys_sweep":
        dt, f = c["dt"], c["f"]
        lo, hi = rng_of(dt)
        for i, raw in enumerate(range(lo, hi + 1)):
            v = num_of(_sweep_value(raw, c))
            if isinstance(o[0][i], Err):
                bad = phys_set_check(v, f, dt, o[0][i], None, "phys")
            else:
                bad = phys_set_check(v, f, dt, None, o[0][i], "phys") or phys_back_check(v, f, o[0][i], o[1][i], "phys")
            if bad:
                return bad
        return None
    # ---- operation lists: reference state = the raw value in the buffer
    dt = c["dt"]
    lo_t, hi_t = rng_of(dt)
    names = table_of(c.get("defs", []))
    descs = table_of(c.get("descs", []))
    pre, post = bytes(c.get("pre", [])), bytes(c.get("post", []))
    n = len(c["cur"])
    buf = pre + bytes(c["cur"]) + post
    last_phys = None
    for i, (op, (res, nbuf)) in enumerate(zip(c["ops"], o)):
        raw = dec(dt, buf[len(pre):len(pre) + n])
        what = f"step {i} {op} on {c['store']} variable of type 0x{dt:X} holding {raw:#x}"
        # read(fmt) / write(value, fmt) must do what the attribute of that name does
        if op[0] == "write":
            op = op[2] if FMT_SETTER.get(op[1]) == op[2][0] else ["noop"]
        elif op[0] == "read":
            op = [FMT_GETTER[op[1]]] if op[1] in FMT_GETTER else ["noop"]
        kind = op[0]
        if c.get("rfail") and isinstance(res, (Err, Abort)) and (kind.startswith("get") or kind in ("set_bits", "held_bits")):
            # the store refuses reads: a getter, and the read-modify-write of a bit field, may only fail - and then
            # must not have written anything; if they answer instead, the answer is judged like any other below
            if nbuf != buf:
                return ("failed_read_wrote", f"{what}: {res!r} but the buffer changed {buf.hex()} -> {nbuf.hex()}")
            continue
        if kind.startswith("get") and nbuf != buf:
            return ("read_changed_store", f"{what}: buffer {buf.hex()} -> {nbuf.hex()}")
        if len(nbuf) != len(buf) or nbuf[:len(pre)] != pre or nbuf[len(pre) + n:] != post:
            return ("neighbours_changed", f"{what}: buffer {buf.hex()} -> {nbuf.hex()}")
        new_raw = dec(dt, nbuf[len(pre):len(pre) + n])
        if kind == "set_raw":
            if lo_t <= op[1] <= hi_t and (isinstance(res, Err) or new_raw != op[1]):
                return ("raw_set_wrong", f"{what}: {res!r}, stored {new_raw:#x}")
        elif kind == "get_raw":
            if res != raw:
                return ("raw_get_wrong", f"{what}: returned {res!r}")
        elif kind in ("set_bits", "held_bits"):
            r = key_range(op[1], names)
            if r is not None and 0 <= op[2] < (1 << (r[1] - r[0] + 1)):
                want = field_set(raw, r[0], r[1], op[2])
                if lo_t <= want <= hi_t:
                    if isinstance(res, Err):
                        sig = "bits_slice_typeerror" if ("slice" in op[1] and res.kind == 3) else "bits_set_refused"
                        return (sig, f"{what}: {res!r}")
                    if new_raw != want:
                        return ("bits_set_wrong", f"{what}: raw became {new_raw:#x}, exactly bits {r[0]}..{r[1]} "
                                                  f"changed would be {want:#x}")
                    if kind == "held_bits" and res != op[2]:
                        return ("bits_held_stale", f"{what}: the Bits object returned {res!r} after the assignment")
                elif not isinstance(res, Err) or nbuf != buf:
                    return ("bits_set_unrepresentable", f"{what}: result {want:#x} does not fit the type but {res!r}, "
                                                        f"buffer {nbuf.hex()}")
        elif kind == "get_bits":
            r = key_range(op[1], names)
            if r is not None:
                if isinstance(res, Err):
                    sig = "bits_slice_typeerror" if ("slice" in op[1] and res.kind == 3) else "bits_get_refused"
                    return (sig, f"{what}: {res!r}")
                if res != field_get(raw, r[0], r[1]):
                    return ("bits_get_wrong", f"{what}: returned {res!r}, bits {r[0]}..{r[1]} are {field_get(raw, r[0], r[1]):#x}")
        elif kind == "poke":
            if isinstance(res, Err) or nbuf != pre + bytes(op[1]) + post:
                return ("runner_error", f"{what}: the store did not take the new bytes: {res!r}, buffer {nbuf.hex()}")
        elif kind == "add_desc":
            descs[op[1]] = op[2]
            if isinstance(res, Err) or nbuf != buf:
                return ("desc_table_change_failed", f"{what}: {res!r}")
        elif kind == "set_desc":
            cands = [v for v, dd in descs.items() if dd == op[1]]
            fit = [v for v in cands if lo_t <= v <= hi_t]
            if cands and fit == cands:
                if isinstance(res, Err) or new_raw not in cands:
                    return ("desc_set_wrong", f"{what}: {res!r}, stored {new_raw}, values named so: {cands}")
            elif not cands and (not isinstance(res, Err) or nbuf != buf):
                return ("desc_set_invented", f"{what}: {res!r}, buffer {nbuf.hex()}; no value has that description")
        elif kind == "get_desc":
            if raw in descs:
                if res != S(descs[raw]):
                    return ("desc_get_wrong", f"{what}: returned {res!r}, table says {descs[raw]!r}")
            elif not isinstance(res, Err):
                return ("desc_get_invented", f"{what}: returned {res!r} but the value has no description")
        elif kind == "set_phys":
            bad = phys_set_check(op[1], c["f"], dt, res, new_raw, "phys")
            if bad:
                return (bad[0], f"{what}: {bad[1]}")
            last_phys = None if isinstance(res, Err) else (op[1], i)
        elif kind == "get_phys":
            if c["f"][0] != 0:
                if isinstance(res, Err):
                    return ("phys_read_failed", f"{what}: {res!r}")
                want = raw * frac(c["f"])
                if abs(Fraction(res[0], res[1]) - want) > mul_steps(raw, c["f"]) * ulp(want):
                    return ("phys_decode_wrong", f"{what}: returned {res!r}")
                if last_phys is not None and last_phys[1] == i - 1:
                    bad = phys_back_check(last_phys[0], c["f"], raw, res, "phys")
                    if bad:
                        return (bad[0], f"{what}: {bad[1]}")
        buf = nbuf
    return None


# ------------------------------------------------------------------ Gallina printing
def gpairs_zs(pairs):
    return glist([f"({gz(k)}, {gstr(d)})" for k, d in pairs])


def gdefs(pairs):
    return glist([f"({gstr(nm)}, {gzlist(bits)})" for nm, bits in pairs])


def gkey(key):
    if "int" in key: return f"(KInt {gz(key['int'])})"
    if "list" in key: return f"(KList {gzlist(key['list'])})"
    if "name" in key: return f"(KName {gstr(key['name'])})"
    a, b, st = key["slice"]
    return f"(KSlice {gopt(a)} {gopt(b)} {gopt(st)})"


def gop(op):
    k = op[0]
    if k == "set_raw": return f"OSetRaw {gz(op[1])}"
    if k == "get_raw": return "OGetRaw"
    if k == "set_phys": return f"OSetPhys {gz(op[1][0])} {gz(op[1][1])}"
    if k == "get_phys": return "OGetPhys"
    if k == "set_desc": return f"OSetDesc {gstr(op[1])}"
    if k == "get_desc": return "OGetDesc"
    if k == "set_bits": return f"OSetBits {gkey(op[1])} {gz(op[2])}"
    if k == "get_bits": return f"OGetBits {gkey(op[1])}"
    if k == "held_bits": return f"OHeldBits {gkey(op[1])} {gz(op[2])}"
    if k == "poke": return f"OPoke {gzlist(op[1])}"
    if k == "write": return f"OWrite {FMT_CODE.get(op[1], 3)} ({gop(op[2])})"
    if k == "read": return f"ORead {FMT_CODE.get(op[1], 3)}"
    raise ValueError(k)


def coq_case(c):
    k = c["kind"]
    if k == "bits_od":
        sel = f"(BName {gstr(c['sel']['name'])})" if "name" in c["sel"] else f"(BList {gzlist(c['sel']['list'])})"
        return f"VBitsOd {gdefs(c.get('defs', []))} {gz(c['raw'])} {sel} {gz(c['v'])}"
    if k == "desc_od":
        return f"VDescOd {gpairs_zs(c['descs'])} {gzlist(c['vs'])} {glist([gstr(d) for d in c['ds']])}"
    if k == "phys_od":
        return (f"VPhysOd {gz(c['dt'])} {gz(c['f'][0])} {gz(c['f'][1])} {gz(c['v'][0])} {gz(c['v'][1])} {gz(c['raw'])}")
    if k == "ops":
        f = c.get("f", [1, 1, 1])
        return (f"{'VOpsWo' if c.get('rfail') else 'VOps'} {gz(c['dt'])} {gz(f[0])} {gz(f[1])} {gpairs_zs(c.get('descs', []))} {gdefs(c.get('defs', []))} "
                f"{gzlist(c.get('pre', []))} {gzlist(c['cur'])} {gzlist(c.get('post', []))} "
                f"{glist([gop(op) for op in c['ops']])}")
    raise ValueError(k)


def nontrivial(c):
    k = c["kind"]
    if k == "ops":
        return any((op[0].startswith("set_") and op[0] != "set_raw") or op[0] == "held_bits" or
                   (op[0] == "write" and op[1] in ("phys", "desc")) for op in c["ops"])
    if k == "bits_od": return c["v"] != 0 or c["raw"] != 0
    if k == "desc_od": return len(c["descs"]) >= 1
    if k == "phys_od": return c["v"][0] != 0 or c["raw"] != 0
    return True


# ------------------------------------------------------------------ generators
WORDS = ["off", "on", "idle", "run", "fault", "ready", "homing", "stop", "quick stop", "enabled", "disabled", "auto",
         "manual", "open", "closed", "warn", "err", "ok", "N/A", "", "Ä", "mode 1", "mode 2", "x", "y", "Run", "ON", "Ok"]


def spell(lo, hi, how, rng, nm="fld"):
    """(key, defs) naming the range lo..hi in the given spelling"""
    bits = list(range(lo, hi + 1))
    if how == "int":
        assert lo == hi
        return {"int": lo}, []
    if how == "list":
        if rng.random() < 0.3:
            rng.shuffle(bits)
        return {"list": bits}, []
    if how == "slice":
        a = None if (lo == 0 and rng.random() < 0.5) else lo
        return {"slice": [a, hi + 1, rng.choice([None, None, 1])]}, []
    if rng.random() < 0.3:
        rng.shuffle(bits)
    defs = [["other", [hi + 1, hi + 2]], [nm, bits]]
    if rng.random() < 0.3:
        defs.insert(0, [nm, [0]])         # re-defined later: the last definition counts
    return {"name": nm}, defs


def pick_type(rng, hi):
    fit_u = [t for t, (s, w) in INT_TYPES.items() if not s and w > hi]
    fit_s = [t for t, (s, w) in INT_TYPES.items() if s and w > hi]
    x = rng.random()
    if x < 0.6 and fit_u: return rng.choice(fit_u)
    if x < 0.85 and fit_s: return rng.choice(fit_s)
    return rng.choice(list(INT_TYPES))


def rand_raw(rng, dt):
    lo, hi = rng_of(dt)
    w = INT_TYPES[dt][1]
    x = rng.random()
    if x < 0.15:
        return rng.choice([lo, hi, 0, -1 if lo < 0 else hi])
    if x < 0.3:
        pat = rng.choice([0x5555555555555555, 0xAAAAAAAAAAAAAAAA]) & ((1 << w) - 1)
        return pat - (1 << w) if (lo < 0 and pat > hi) else pat
    return rng.randint(lo, hi)


def store_fields(rng, dt, raw0, store):
    d = dict(store=store, dt=dt, cur=list(enc(dt, raw0)))
    if store == "pdo":
        room = 8 - INT_TYPES[dt][1] // 8
        a = rng.randint(0, room)
        b = rng.randint(0, room - a)
        d["pre"] = [rng.randrange(256) for _ in range(a)]
        d["post"] = [rng.randrange(256) for _ in range(b)]
    return d


def pick_store(rng, i):
    return ("sdo", "mem", "pdo", "mem")[i % 4]


def field_values(rng, n, count):
    top = (1 << n) - 1
    vals = [top, 0, 1 << (n - 1), top - 1 if top else 0]
    out = [rng.randint(0, top)]
    out += rng.sample(vals, min(count - 1, len(vals)))
    return out[:count]


def gen_bits(rng, tier):
    cases = []
    i = 0
    nvals = {"quick": 2, "thorough": 5, "search": 2}[tier]
    for lo in range(32):
        for hi in range(lo, 32):
            hows = ["list", "slice", "name"] + (["int"] if lo == hi else [])
            for how in hows:
                if tier == "search" and rng.random() < 0.5:
                    continue
                key, defs = spell(lo, hi, how, rng)
                dt = pick_type(rng, hi)
                raw0 = rand_raw(rng, dt)
                ops = []
                for j, v in enumerate(field_values(rng, hi - lo + 1, nvals)):
                    ops += [["held_bits", key, v]] if (i + j) % 3 == 2 else [["set_bits", key, v], ["get_bits", key]]
                ops.append(["get_raw"])
                c = dict(kind="ops", **store_fields(rng, dt, raw0, pick_store(rng, i)), defs=defs, ops=ops)
                cases.append(c)
                i += 1
    # ranges beyond 32 bits on the wide types
    for _ in range({"quick": 60, "thorough": 600, "search": 40}[tier]):
        dt = rng.choice([0x1B, 0x15, 0x19, 0x13, 0x1A, 0x18])
        w = INT_TYPES[dt][1]
        lo = rng.randrange(w)
        hi = rng.randrange(lo, w)
        key, defs = spell(lo, hi, rng.choice(["list", "slice", "name"]), rng)
        ops = []
        for v in field_values(rng, hi - lo + 1, 2):
            ops += [["set_bits", key, v], ["get_bits", key], ["get_raw"]]
        cases.append(dict(kind="ops", **store_fields(rng, dt, rand_raw(rng, dt), pick_store(rng, i)), defs=defs, ops=ops))
        i += 1
    # the stored value changes by another route between two uses of the SAME variable object (a received PDO,
    # the device / a second accessor changing the object, a direct data write): every .bits access must see the
    # current raw value, and an assignment must keep the current value of all other bits
    for _ in range({"quick": 240, "thorough": 1500, "search": 120}[tier]):
        dt = rng.choice([t for t, (sg, w) in INT_TYPES.items() if not sg] + [0x03, 0x04])
        w = INT_TYPES[dt][1]
        lo = rng.randrange(min(w, 32))
        hi = rng.randrange(lo, min(w, 32))
        hows = ["list", "slice", "name"] + (["int"] if lo == hi else [])
        key, defs = spell(lo, hi, rng.choice(hows), rng)
        lo2 = rng.randrange(w)
        key2, _ = spell(lo2, lo2, "int", rng)
        ops = [[rng.choice(["get_bits", "get_bits", "get_raw"]), key][:2] if rng.random() < 0.8 else ["set_bits", key, 0]]
        if ops[0][0] == "get_raw":
            ops = [["get_raw"], ["get_bits", key]]
        for step in range(rng.randint(1, 3)):
            new = rand_raw(rng, dt)
            ops.append(["poke", list(enc(dt, new)), rng.randrange(6)])
            x = rng.random()
            if x < 0.4:
                ops += [["get_bits", key], ["get_bits", key2]]
            elif x < 0.8:
                ops += [["set_bits", key, rng.choice(field_values(rng, hi - lo + 1, 3))], ["get_raw"], ["get_bits", key]]
            else:
                ops += [["held_bits", key, rng.choice(field_values(rng, hi - lo + 1, 3))], ["get_bits", key2], ["get_raw"]]
        cases.append(dict(kind="ops", **store_fields(rng, dt, rand_raw(rng, dt), pick_store(rng, i)), defs=defs, ops=ops))
        i += 1
    # keys that are not ranges, values that do not fit, refused keys (model comparison; the oracle demands nothing)
    odd_keys = [{"slice": [1, None, None]}, {"slice": [None, None, None]}, {"slice": [0, 8, 2]}, {"slice": [7, 2, -1]},
                {"slice": [7, None, -1]}, {"slice": [3, 3, None]}, {"slice": [5, 2, None]}, {"slice": [0, 4, 0]},
                {"slice": [2, 9, 3]}, {"slice": [-2, 3, None]}, {"list": []}, {"list": [-1]}, {"list": [3, -1]},
                {"list": [0, 2]}, {"list": [1, 3, 5, 7]}, {"list": [4, 4, 4]}, {"list": [9, 2]}, {"int": -1}, {"int": 40},
                {"name": "nope"}, {"name": ""}, {"name": "fld"}, {"name": "gap"}, {"name": "empty"}, {"name": "neg"}]
    odd_defs = [["fld", [2, 3]], ["gap", [0, 3]], ["empty", []], ["neg", [-3]], ["fld", [4, 5, 6]]]
    for key in odd_keys:
        for _ in range({"quick": 2, "thorough": 8, "search": 1}[tier]):
            dt = rng.choice([0x05, 0x06, 0x07, 0x04, 0x1B])
            raw0 = rand_raw(rng, dt)
            v = rng.choice([0, 1, 2, 3, 5, 7, 255, 256, -1, rng.randrange(1 << 10)])
            ops = [["get_bits", key], ["set_bits", key, v], ["get_raw"], ["get_bits", key], ["held_bits", key, v]]
            cases.append(dict(kind="ops", **store_fields(rng, dt, raw0, pick_store(rng, i)), defs=odd_defs, ops=ops))
            i += 1
    # the dictionary functions directly: any raw value, also above 64 bits and negative
    for _ in range({"quick": 250, "thorough": 3000, "search": 150}[tier]):
        x = rng.random()
        if x < 0.6:
            lo = rng.randrange(0, 70)
            hi = lo + rng.randrange(0, 34)
            bits = list(range(lo, hi + 1))
            if rng.random() < 0.3: rng.shuffle(bits)
            v = rng.choice(field_values(rng, hi - lo + 1, 3))
        else:
            bits = rng.sample(range(0, 40), rng.randrange(1, 6))
            v = rng.randrange(0, 1 << rng.randrange(1, 9))
        raw = rng.choice([rng.getrandbits(rng.choice([8, 16, 32, 64, 100])), -rng.getrandbits(rng.choice([8, 32, 70])) - 1, 0])
        if rng.random() < 0.25:
            defs = [["a", [0, 1]], ["sel", bits], ["b", [7]]]
            sel = {"name": "sel"}
        else:
            defs, sel = [["a", [0, 1]]], {"list": bits}
        cases.append(dict(kind="bits_od", defs=defs, raw=raw, sel=sel, v=v))
    return cases


def rand_table(rng, n, dt, dup_desc, readd):
    lo, hi = rng_of(dt)
    words = rng.sample(WORDS, min(n, len(WORDS)))
    vals = set()
    while len(vals) < n:
        vals.add(rng.choice([rng.randint(lo, hi), rng.randint(max(lo, -5), min(hi, 20))]))
    vals = list(vals)
    rng.shuffle(vals)
    adds = []
    for j, v in enumerate(vals):
        d = words[j % len(words)]
        if dup_desc and j > 0 and rng.random() < 0.4:
            d = adds[rng.randrange(len(adds))][1]
        adds.append([v, d])
    if readd:
        for _ in range(rng.randint(1, 3)):
            adds.append([rng.choice(vals), rng.choice(WORDS)])
    return adds


def gen_desc(rng, tier):
    cases = []
    reps = {"quick": 1, "thorough": 8, "search": 1}[tier]
    i = 0
    for n in range(1, 21):
        for dup_desc, readd in ((False, False), (True, False), (False, True), (True, True)):
            for _ in range(reps):
                dt = rng.choice(list(INT_TYPES))
                adds = rand_table(rng, n, dt, dup_desc, readd)
                t = table_of(adds)
                lo, hi = rng_of(dt)
                # direct: every entry both ways plus strangers
                vs = list(t) + [rng.randint(lo, hi), max(t) + 1]
                ds = list(dict.fromkeys(t.values())) + ["no such text", rng.choice(WORDS)]
                cases.append(dict(kind="desc_od", descs=adds, vs=vs, ds=ds))
                # through a store
                ops = []
                for d in rng.sample(ds, min(len(ds), 4)):
                    ops += [["set_desc", d], ["get_raw"], ["get_desc"]]
                for v in rng.sample(vs, min(len(vs), 3)):
                    if lo <= v <= hi:
                        ops += [["set_raw", v], ["get_desc"]]
                raw0 = rng.choice(list(t))
                cases.append(dict(kind="ops", **store_fields(rng, dt, raw0, pick_store(rng, i)), descs=adds, ops=ops))
                i += 1
    # the table changes while the variable is in use: re-describe a value, swap two names, add an entry
    for _ in range({"quick": 30, "thorough": 300, "search": 60}[tier]):
        dt = rng.choice(list(INT_TYPES))
        n = rng.randrange(2, 8)
        adds = rand_table(rng, n, dt, False, False)
        t = table_of(adds)
        vals = list(t)
        ops = []
        for d in rng.sample(list(t.values()), min(len(t), 2)):
            ops += [["set_desc", d], ["get_raw"], ["get_desc"]]
        for _ in range(rng.randrange(1, 4)):
            r = rng.random()
            if r < 0.4:            # re-describe an existing value (table size unchanged)
                v = rng.choice(vals); name = rng.choice(WORDS) + str(rng.randrange(100))
                ops += [["add_desc", v, name], ["set_desc", name], ["get_raw"], ["set_desc", t[v]], ["get_raw"]]
                t[v] = name
            elif r < 0.7 and len(vals) >= 2:   # two values swap their names
                a, b = rng.sample(vals, 2)
                ops += [["add_desc", a, t[b]], ["add_desc", b, t[a]]]
                t[a], t[b] = t[b], t[a]
                ops += [["set_desc", t[a]], ["get_raw"], ["get_desc"], ["set_desc", t[b]], ["get_raw"], ["get_desc"]]
            else:                  # a new entry
                lo, hi = rng_of(dt)
                v = rng.choice([x for x in range(lo, min(hi, lo + 300)) if x not in t] or [max(t) + 1])
                if not lo <= v <= hi: continue
                name = rng.choice(WORDS) + str(rng.randrange(100, 200))
                ops += [["add_desc", v, name], ["set_desc", name], ["get_raw"], ["get_desc"]]
                t[v] = name; vals.append(v)
        raw0 = vals[0]
        cases.append(dict(kind="ops", **store_fields(rng, dt, raw0, pick_store(rng, i)), descs=adds, ops=ops, model=False))
        i += 1
    # no table at all
    for store in ("mem", "sdo", "pdo"):
        cases.append(dict(kind="ops", **store_fields(rng, 0x06, 7, store), descs=[],
                          ops=[["get_desc"], ["set_desc", "on"], ["get_raw"]]))
    cases.append(dict(kind="desc_od", descs=[], vs=[0, 1], ds=["", "on"]))
    return cases


DYADIC = [0.5, 0.25, 2.0, 8.0, -4.0, 1, 2, -1, 0.125, -0.5, 1024.0, 2.0 ** -10]
DECIMAL = [0.1, 10.0, 1e-3, 1e3, 10, 1000, -3, 3, 0.3, -0.01, 1e-6, 1e6, 7.5]
INT_FACTORS = [3, -3, 10, -10, 25, -25, 7, -7, 1000, -1000, 4, -4, 2, -2, -1, 6, -6, 100, -100]
OFFSETS = [(0, 1), (1, 4), (-1, 4), (1, 2), (-1, 2), (3, 8), (-3, 8), (3, 2), (-5, 2), (1, 1024), (511, 1024)]


def phys_value(rng, raw, off, f):
    """the physical value (raw + off) * f as an int or a float (rounded once when not representable)"""
    x = (raw + Fraction(*off)) * frac(f)
    if f[2] and x.denominator == 1 and rng.random() < 0.7:
        return num_of(int(x))
    if f64_exact(x):
        return [x.numerator, x.denominator, 0]
    return num_of(x.numerator / x.denominator)


def gen_phys(rng, tier):
    cases = []
    nraw = {"quick": 3, "thorough": 12, "search": 3}[tier]
    i = 0
    for fval in DYADIC + DECIMAL:
        f = num_of(fval)
        for dt in INT_TYPES:
            lo, hi = rng_of(dt)
            raws = [lo, hi, 0, 1, -1 if lo < 0 else 2] + [rng.randint(lo, hi) for _ in range(nraw)]
            raws += [rng.randint(max(lo, -300), min(hi, 300)) for _ in range(nraw)]
            for raw in rng.sample(raws, nraw) + [rng.choice([lo, hi])]:
                off = rng.choice(OFFSETS)
                try:
                    v = phys_value(rng, raw, off, f)
                except OverflowError:
                    continue
                if rng.random() < 0.5:
                    cases.append(dict(kind="phys_od", dt=dt, f=f, v=v, raw=raw,
                                      model=bool(div_steps(v, f) == 0 and mul_steps(raw, f) == 0)))
                else:
                    raw0 = rand_raw(rng, dt)
                    exact = phys_exact(v, f, dt, raw0)
                    ops = [["set_phys", v], ["get_phys"], ["get_raw"]]
                    if mul_steps(raw0, f) == 0 and rng.random() < 0.3:
                        ops = [["get_phys"]] + ops       # raw0 is read through phys only when that is exact
                    cases.append(dict(kind="ops", **store_fields(rng, dt, raw0, pick_store(rng, i)), f=f, ops=ops,
                                      model=bool(exact)))
                    i += 1
    # integer-typed factors (var.factor = -10 in application code) with requests that are not multiples of the
    # factor, as int and as float: remainders just below / at / just above half a step, both signs
    for fi in INT_FACTORS:
        f = num_of(fi)
        a = abs(fi)
        rems = sorted({1, a - 1, a // 2, a // 2 + 1, (a - 1) // 2, rng.randrange(1, a), rng.randrange(1, a)} - {0, a}) if a > 1 else [0]
        for dt in rng.sample(list(INT_TYPES), {"quick": 4, "thorough": 16, "search": 3}[tier]):
            lo, hi = rng_of(dt)
            for rem in rems:
                raw = rng.choice([rng.randint(max(lo, -200), min(hi, 200)), rng.randint(lo, hi), rng.randint(max(lo, -6), min(hi, 6))])
                x = raw * fi + rng.choice([rem, -rem])
                for as_float in (False, True):
                    if as_float and not f64_exact(Fraction(x)):
                        continue
                    v = num_of(float(x)) if as_float else num_of(x)
                    raw0 = rand_raw(rng, dt)
                    if rng.random() < 0.4:
                        cases.append(dict(kind="phys_od", dt=dt, f=f, v=v, raw=raw,
                                          model=bool(div_steps(v, f) == 0 and mul_steps(raw, f) == 0)))
                    else:
                        cases.append(dict(kind="ops", **store_fields(rng, dt, raw0, pick_store(rng, i)), f=f,
                                          ops=[["set_phys", v], ["get_raw"], ["get_phys"]],
                                          model=bool(phys_exact(v, f, dt, raw0))))
                        i += 1
    # factor 0 (int and float), value out of the type's range
    for f in (num_of(0), num_of(0.0)):
        for store in ("mem", "sdo", "pdo"):
            cases.append(dict(kind="ops", **store_fields(rng, 0x03, 5, store), f=f,
                              ops=[["set_phys", num_of(3)], ["get_raw"], ["get_phys"]]))
    for dt in (0x05, 0x02, 0x03, 0x10, 0x16):
        lo, hi = rng_of(dt)
        for f in (num_of(0.5), num_of(2), num_of(-4.0)):
            for raw in (hi + 1, lo - 1, hi, lo):
                x = raw * frac(f)
                v = [x.numerator, x.denominator, 0]
                cases.append(dict(kind="ops", **store_fields(rng, dt, 1, pick_store(rng, i)), f=f,
                                  ops=[["set_phys", v], ["get_raw"], ["get_phys"]]))
                i += 1
    return cases


def gen_sweeps(rng):
    """thorough only: through implementation and oracle, not through the model"""
    cases = []
    i = 0
    for lo in range(32):
        for hi in range(lo, min(32, lo + 12)):
            for how in ["list", "slice", "name"] + (["int"] if lo == hi else []):
                key, defs = spell(lo, hi, how, rng)
                dt = rng.choice([t for t, (s, w) in INT_TYPES.items() if not s and w > hi])
                raw0 = rand_raw(rng, dt)
                cases.append(dict(kind="bits_sweep", **store_fields(rng, dt, raw0, ("mem", "mem", "pdo", "sdo")[i % 4] if hi - lo < 8 else "mem"),
                                  defs=defs, key=key, lo=lo, hi=hi, model=False))
                i += 1
    for fval in [0.5, 0.25, 2.0, 8.0, -4.0, 0.1, 10.0, 1e-3, 1e3, 3, 0.3]:
        for dt in (0x02, 0x05, 0x03, 0x06):
            for off in ((0, 1), (1, 2), (3, 8), (-1, 4)):
                if INT_TYPES[dt][1] == 16 and (fval not in (0.5, -4.0, 0.1, 1e-3, 10.0, 3) or off[1] > 2):
                    continue
                cases.append(dict(kind="phys_sweep", **store_fields(rng, dt, 0, "mem"), f=num_of(fval), off=list(off),
                                  model=False))
    for fi in (10, -10, 5, -5, -25, 3, -3):       # integer factor, integer requests (raw + k/|f|) * f
        for dt in (0x02, 0x05, 0x03):
            for k in sorted({1, abs(fi) - 1, abs(fi) // 2 + 1, abs(fi) // 2}):
                for sgn in (1, -1):
                    cases.append(dict(kind="phys_sweep", **store_fields(rng, dt, 0, "mem"), f=num_of(fi),
                                      off=[sgn * k, abs(fi)], model=False))
    return cases


def via_methods(rng, ops, p):
    """the same history through var.write(value, fmt) / var.read(fmt) instead of the attributes (each step with
    probability p); now and then a format the methods do not know"""
    out = []
    for op in ops:
        k = op[0]
        if k in ("set_raw", "set_phys", "set_desc") and rng.random() < p:
            out.append(["write", k[4:], op])
        elif k in ("get_raw", "get_phys", "get_desc") and rng.random() < p:
            out.append(["read", k[4:]])
        else:
            out.append(op)
        if rng.random() < 0.03:
            out.append(rng.choice([["read", "hex"], ["write", "Phys", ["set_raw", 1]], ["read", ""]]))
    return out


def gen_cases(rng, tier):
    cases = gen_bits(rng, tier) + gen_desc(rng, tier) + gen_phys(rng, tier)
    # every second history with a .raw / .phys / .desc step also goes through read() / write()
    j = 0
    for c in cases:
        if c["kind"] == "ops" and any(op[0][4:] in ("raw", "phys", "desc") and op[0][:3] in ("set", "get") for op in c["ops"]):
            j += 1
            if j % 2 == 0:
                c["ops"] = via_methods(rng, c["ops"], 1.0 if j % 4 == 0 else 0.5)
    # every third history runs on a member of an array that declares only sub 0 and sub 1 (the object is generated from
    # the sub-1 template: same factor, descriptions, bit definitions, type - same expected results); every sixth
    # history on a plain / SDO variable runs behind a store that refuses reads (write-only object, abort 0x06010001)
    j = k = 0
    for c in cases:
        if c["kind"] != "ops":
            continue
        j += 1
        if j % 3 == 0:
            c["member"] = rng.choice([2, 2, 3, 7, 0x20, 0xFE, 0xFF, 1])
        if c["store"] in ("mem", "sdo"):
            k += 1
            if k % 6 == 0:
                c["rfail"] = 1
    if tier == "thorough":
        sweeps = gen_sweeps(rng)
        for n, c in enumerate(sweeps):
            if n % 3 == 1:
                c["member"] = rng.choice([2, 5, 0xFF])
        k = 0
        for c in sweeps:
            if c["kind"] == "phys_sweep":
                k += 1
                if k % 2 == 0:
                    c["route"] = "method"
        cases = cases[:2] + sweeps + cases[2:]      # (kept away from the evidence samples: long observations)
    return cases


def shrink(c):
    if c["kind"] == "ops":
        ops = c["ops"]
        for i in range(len(ops)):
            if len(ops) > 1:
                yield dict(c, ops=ops[:i] + ops[i + 1:])
        if c["store"] != "mem":
            yield dict({k: v for k, v in c.items() if k not in ("pre", "post")}, store="mem")
        if c.get("descs") and len(c["descs"]) > 1:
            for i in range(len(c["descs"])):
                yield dict(c, descs=c["descs"][:i] + c["descs"][i + 1:])
    elif c["kind"] == "desc_od":
        for fld in ("vs", "ds", "descs"):
            l = c[fld]
            for i in range(len(l)):
                yield dict(c, **{fld: l[:i] + l[i + 1:]})


def neighbours(c, rng):
    if c["kind"] != "ops":
        return
    for store in ("mem", "sdo", "pdo"):
        d = {k: v for k, v in c.items() if k not in ("pre", "post", "model")}
        d["store"] = store
        if store == "pdo":
            d["pre"], d["post"] = [], []
        yield d
