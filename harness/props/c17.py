"""C17 - periodic transmissions run exactly when and with what the API state says.

Implementation side: the real canopen classes (Network, SyncProducer, PdoMap, NmtSlave of a
LocalNode, NmtMaster of a RemoteNode) on harness/ref/fakebus.FakeBus, a simulated python-can bus
that registers cyclic tasks (one flavour with modify_data, one without).  After every API call the
set of live cyclic tasks is recorded.

Oracle: the property's own statement as a small specification tracker written from the statement and
CiA 301 (SYNC = 0x80, heartbeat / node guarding = 0x700 + node id, NMT command -> state table),
independent of the Coq model and of the library; it never looks at task ids.
"""
import itertools
import logging

from vlib.obs import Err, guarded, gz, gzlist, gopt, gbool, glist

PROP = "C17"
MODEL_VO = ["theories/Model/Periodic.vo"]
COQ_IMPORTS = "From CV Require Import Model.Periodic."
COQ_RUN = "run_periodic"
COQ_CASE_TYPE = "periodic_case"
ANCHORS = [("canopen.network", "PeriodicMessageTask"), ("canopen.network", "Network.send_periodic"),
           ("canopen.network", "Network.disconnect"), ("canopen.network", "Network.send_message"),
           ("canopen.sync", "SyncProducer.start"), ("canopen.sync", "SyncProducer.stop"), ("canopen.sync", "SyncProducer.__init__"),
           ("canopen.pdo.base", "PdoMap.start"), ("canopen.pdo.base", "PdoMap.stop"), ("canopen.pdo.base", "PdoMap.update"),
           ("canopen.pdo.base", "PdoBase.stop"), ("canopen.pdo", "PDO.__init__"), ("canopen.pdo.base", "PdoVariable.set_data"),
           ("canopen.pdo.base", "PdoMap.__getitem__"),
           ("canopen.nmt", "NmtSlave.send_command"), ("canopen.nmt", "NmtSlave.on_command"), ("canopen.nmt", "NmtSlave.on_write"),
           ("canopen.nmt", "NmtSlave.start_heartbeat"), ("canopen.nmt", "NmtSlave.stop_heartbeat"),
           ("canopen.nmt", "NmtSlave.update_heartbeat"), ("canopen.nmt", "NmtSlave.__init__"),
           ("canopen.nmt", "NmtBase.send_command"), ("canopen.nmt", "NmtBase.on_command"),
           ("canopen.nmt", "NmtMaster.start_node_guarding"), ("canopen.nmt", "NmtMaster.stop_node_guarding"),
           ("canopen.node.local", "LocalNode.set_data"), ("canopen.node.local", "LocalNode.__init__")]
RULE = ("case = bus flavour (cyclic tasks with / without modify_data), node ids, registration order of the nodes incl. 0..3 nodes without PDO support at any position, default of object 0x1017, 1..6 PDO maps "
        "(COB-ID, initial payload) on the rpdo/tpdo of a remote and a local node, and a call sequence over SYNC producer, "
        "PDO maps (incl. assignments of the cob_id / period attributes followed by start() with the same or no period), heartbeat producer (start/stop/update, NMT commands sent and received, writes of 0x1017 and of another "
        "object), node guarding and Network.disconnect; periods 0, omitted, 1 ms .. 100 s, heartbeat times 0..65535; "
        "the live set (task id, CAN id, payload, period, remote flag) is compared after every call; "
        "non-trivial = some producer is operated on again while its task is running (restart, update, stop, disconnect); "
        "distinct by canonical JSON of the case")
TRUSTED = ["modelled, not verified: python-can's cyclic send threads and their timing; the simulated bus "
           "(harness/ref/fakebus.py) stands for a python-can bus: a task transmits the copy of the frame it was handed "
           "at creation / modify_data until stop()",
           "can.Message construction (payload conversion) and struct packing of the UNSIGNED16 object 0x1017"]
ASSUMPTIONS = ["periods are modelled in integer milliseconds (the harness passes ms/1000.0 and reads back round(period*1000))",
               "the heartbeat payload clause of the invariant is stated for a connected network (after Network.disconnect "
               "the boot-up message of NmtSlave.send_command raises before update_heartbeat)",
               "the 'current period' of a producer is that of its last successful start (a start(0) that raises "
               "ValueError leaves SyncProducer.period at 0 while the old task keeps its period)"]

SLOTS = [("rem", "rpdo", 1), ("loc", "tpdo", 1), ("rem", "tpdo", 1), ("loc", "rpdo", 1), ("rem", "rpdo", 2), ("loc", "tpdo", 2)]
HB_INDEX = 0x1017
OTHER_U16 = 0x2010

# CiA 301 7.3.2 (+ CiA 320 sleep / stand-by): NMT command specifier -> resulting state
CIA_COMMAND_STATE = {1: 5, 2: 4, 128: 127, 129: 0, 130: 0, 80: 80, 96: 96}
SYNC_ID = 0x80
ERRCTRL_BASE = 0x700


# ------------------------------------------------------------------------------------ implementation
def _make_od():
    import canopen
    from canopen import objectdictionary as odm
    od = canopen.ObjectDictionary()
    for base in (0x1400, 0x1800):
        for n in range(2):
            rec = odm.ODRecord(f"com {base + n:X}", base + n)
            v = odm.ODVariable("COB-ID", base + n, 1); v.data_type = odm.UNSIGNED32; rec.add_member(v)
            v = odm.ODVariable("Transmission type", base + n, 2); v.data_type = odm.UNSIGNED8; rec.add_member(v)
            od.add_object(rec)
    for base in (0x1600, 0x1A00):
        for n in range(2):
            arr = odm.ODArray(f"map {base + n:X}", base + n)
            v = odm.ODVariable("Number of entries", base + n, 0); v.data_type = odm.UNSIGNED8; arr.add_member(v)
            v = odm.ODVariable("Entry", base + n, 1); v.data_type = odm.UNSIGNED32; arr.add_member(v)
            od.add_object(arr)
    for k in range(8):
        v = odm.ODVariable(f"byte{k}", 0x2000 + k, 0); v.data_type = odm.UNSIGNED8; v.access_type = "rw"
        od.add_object(v)
    v = odm.ODVariable("other u16", OTHER_U16, 0); v.data_type = odm.UNSIGNED16; v.access_type = "rw"
    od.add_object(v)
    return od


def _bare_node(node_id):
    import canopen
    from canopen.node.base import BaseNode

    class MonitorNode(BaseNode):
        """passive node: no SDO / PDO / NMT services"""
        def associate_network(self, network):
            self.network = network

        def remove_network(self):
            self.network = canopen.network._UNINITIALIZED_NETWORK
    return MonitorNode(node_id, canopen.ObjectDictionary())


def _build(c):
    import canopen
    from canopen import objectdictionary as odm
    from ref.fakebus import FakeBus
    logging.disable(logging.CRITICAL)
    bus = FakeBus(c["modify"])
    net = canopen.Network(bus)
    odl, odr = _make_od(), _make_od()
    hb = odm.ODVariable("Producer heartbeat time", HB_INDEX, 0)
    hb.data_type = odm.UNSIGNED16; hb.access_type = "rw"; hb.default = c["hb_default"]
    odl.add_object(hb)
    loc = canopen.LocalNode(c["local"], odl)
    rem = canopen.RemoteNode(c["remote"], odr)
    nodes = {"loc": loc, "rem": rem}
    # registration order of the nodes; an int entry is a node WITHOUT PDO support (a bare BaseNode subclass,
    # which Network accepts and Network.disconnect must tolerate): in the model a node with zero maps
    for entry in c.get("order", ["loc", "rem"]):
        net.add_node(nodes[entry] if isinstance(entry, str) else _bare_node(entry))
    maps = []
    for (who, side, no), (cob, data) in zip(SLOTS, c["pdos"]):
        m = getattr(nodes[who], side)[no]
        m.cob_id = cob
        m.clear()
        for k in range(len(data)):
            m.add_variable(0x2000 + k, 0)
        for k, b in enumerate(data):
            m[k].raw = b
        maps.append(m)
    return bus, net, loc, rem, maps


def _sec(ms):
    return None if ms is None else ms / 1000.0


def _apply(op, bus, net, loc, rem, maps):
    k = op[0]
    if k == "SyncStart": return net.sync.start(_sec(op[1]))
    if k == "SyncStop": return net.sync.stop()
    if k == "PdoStart": return maps[op[1]].start(_sec(op[2]))
    if k == "PdoStop": return maps[op[1]].stop()
    if k == "PdoUpdate": return maps[op[1]].update()
    if k == "PdoPoke":
        maps[op[1]].data[op[2]] = op[3]
        return None
    if k == "PdoAssign":
        maps[op[1]].data = bytearray(op[2])
        return None
    if k == "PdoSetVar":
        maps[op[1]][op[2]].raw = op[3]
        return None
    if k == "HbStart": return loc.nmt.start_heartbeat(op[1])
    if k == "HbStop": return loc.nmt.stop_heartbeat()
    if k == "HbUpdate": return loc.nmt.update_heartbeat()
    if k == "NmtCmd": return loc.nmt.send_command(op[1])
    if k == "NmtRecv": return net.notify(0, bytearray([op[1], op[2]]), 0.0)
    if k == "ObjWrite":
        loc.sdo[op[1]].raw = op[2]
        return None
    if k == "GuardStart": return rem.nmt.start_node_guarding(_sec(op[1]))
    if k == "GuardStop": return rem.nmt.stop_node_guarding()
    if k == "Disconnect": return net.disconnect()
    if k == "SyncSetPeriod":
        net.sync.period = _sec(op[1])
        return None
    if k == "PdoSetCob":
        maps[op[1]].cob_id = op[2]
        return None
    if k == "PdoSetPeriod":
        maps[op[1]].period = _sec(op[2])
        return None
    raise ValueError(k)


def impl(c):
    def f():
        bus, net, loc, rem, maps = _build(c)
        out = []
        for op in c["ops"]:
            r = guarded(lambda: _apply(op, bus, net, loc, rem, maps))
            out.append([r if isinstance(r, Err) else None, bus.live_view()])
        return out
    return guarded(f)


# ------------------------------------------------------------------------------------ oracle
class _Spec:
    """What the property demands to be on the wire, per producer.  run[p] is None or the frame
    (can id, payload, period ms, remote) that producer p's single cyclic task must carry."""

    def __init__(self, c):
        self.c = c
        self.conn = True
        self.run = {"sync": None, "hb": None, "guard": None}
        self.sync_attr = None
        self.state = 0
        self.obj = c["hb_default"]
        self.pdo = []
        for j, (cob, data) in enumerate(c["pdos"][:len(SLOTS)]):
            self.run[f"pdo{j}"] = None
            self.pdo.append(dict(cob=cob, data=bytearray(data), nvars=len(data), attr=None,
                                 start_payload=None, inplace=False, effective=False))

    def hb_frame(self, ms):
        return (ERRCTRL_BASE + self.c["local"], bytes([self.state]), ms, False)

    def step(self, op):
        """returns (must, may): must[p] = demanded frame (or None) for the producers this call is about,
        may[p] = further frames that the statement also permits"""
        k = op[0]
        must, may = {}, {}
        if k == "SyncStart":
            eff = op[1] if op[1] is not None else self.sync_attr
            if op[1] is not None:
                self.sync_attr = op[1]
            if eff:
                must["sync"] = (SYNC_ID, b"", eff, False)
            else:
                may["sync"] = [self.run["sync"], None]      # invalid period: nothing new may start
        elif k == "SyncStop":
            must["sync"] = None
        elif k == "SyncSetPeriod":
            self.sync_attr = op[1]          # takes effect at the next start(); the running task is untouched
        elif k == "PdoSetCob":
            self.pdo[op[1]]["cob"] = op[2]
        elif k == "PdoSetPeriod":
            self.pdo[op[1]]["attr"] = op[2]
        elif k in ("PdoStart", "PdoStop", "PdoUpdate", "PdoPoke", "PdoAssign", "PdoSetVar"):
            j = op[1]
            P, key = self.pdo[j], f"pdo{j}"
            cur = self.run[key]
            if k == "PdoStart":
                eff = op[2] if op[2] is not None else P["attr"]
                if op[2] is not None:
                    P["attr"] = op[2]
                if eff:
                    must[key] = (P["cob"], bytes(P["data"]), eff, False)
                    P.update(start_payload=bytes(P["data"]), inplace=False, effective=False)
                else:
                    may[key] = [cur, None]
            elif k == "PdoStop":
                must[key] = None
            elif k == "PdoPoke":
                if 0 <= op[2] < len(P["data"]) and 0 <= op[3] <= 255:
                    P["data"][op[2]] = op[3]
                    P["inplace"] = True
                # a payload changed without update(): the old frame is fine, so is the new one
                may[key] = [cur, None if cur is None else (cur[0], bytes(P["data"]), cur[2], cur[3])]
            elif k == "PdoAssign":
                P["data"] = bytearray(op[2])
                may[key] = [cur, None if cur is None else (cur[0], bytes(P["data"]), cur[2], cur[3])]
            else:
                if k == "PdoSetVar" and 0 <= op[2] < P["nvars"] and 0 <= op[3] <= 255:
                    P["data"][op[2]:op[2] + 1] = bytes([op[3]])
                    P["inplace"] = True
                must[key] = None if cur is None else (cur[0], bytes(P["data"]), cur[2], cur[3])
        elif k == "HbStart":
            must["hb"] = self.hb_frame(op[1]) if op[1] > 0 else None
        elif k == "HbStop":
            must["hb"] = None
        elif k == "HbUpdate":
            cur = self.run["hb"]
            must["hb"] = None if cur is None else self.hb_frame(cur[2])
        elif k == "NmtCmd":
            old = self.state
            self.state = CIA_COMMAND_STATE.get(op[1], self.state)
            cur = self.run["hb"]
            if old == 0 and self.state == 127:
                # boot-up finished: the heartbeat producer runs iff the heartbeat time object is non-zero
                must["hb"] = self.hb_frame(self.obj) if self.obj > 0 else None
            else:
                must["hb"] = None if cur is None else self.hb_frame(cur[2])
        elif k == "NmtRecv":
            old = self.state
            if op[2] in (self.c["local"], 0):
                self.state = CIA_COMMAND_STATE.get(op[1], self.state)
            cur = self.run["hb"]
            must["hb"] = None if cur is None else self.hb_frame(cur[2])
            if old == 0 and self.state == 127 and self.obj > 0:
                may["hb"] = [self.hb_frame(self.obj)]
        elif k == "ObjWrite":
            if op[1] == HB_INDEX and 0 <= op[2] <= 0xFFFF:
                self.obj = op[2]
                must["hb"] = self.hb_frame(op[2]) if op[2] > 0 else None
        elif k == "GuardStart":
            must["guard"] = (ERRCTRL_BASE + self.c["remote"], b"", op[1], True)
        elif k == "GuardStop":
            must["guard"] = None
        elif k == "Disconnect":
            for j in range(len(self.pdo)):
                must[f"pdo{j}"] = None
        return must, may


def _match(allowed, actual):
    """allowed: dict producer -> list of alternatives (None or frame); actual: list of frames.
    Returns a choice dict whose multiset of frames equals the actual one, or None."""
    keys = sorted(allowed)
    want = sorted(actual)
    for combo in itertools.product(*[allowed[k] for k in keys]):
        if sorted(f for f in combo if f is not None) == want:
            return dict(zip(keys, combo))
    return None


def _dedup(l):
    out = []
    for x in l:
        if x not in out:
            out.append(x)
    return out


def oracle(c, o):
    if isinstance(o, Err) or not isinstance(o, list):
        return ("harness_setup_failed", repr(o))
    spec = _Spec(c)
    for n, (op, (res, live)) in enumerate(zip(c["ops"], o)):
        old = dict(spec.run)
        was_conn = spec.conn
        must, may = spec.step(op)
        raised = isinstance(res, Err)
        allowed = {}
        for p, cur in old.items():
            alts = []
            if p in must:
                alts.append(must[p])
                if raised or (must[p] is not None and not was_conn and must[p] != cur):
                    # a call that raised, or a start on a disconnected network: nothing new can run;
                    # the statement still requires at most one task carrying the last good frame
                    alts += [cur, None]
            elif p not in may:
                alts.append(cur)
            alts += may.get(p, [])
            if raised and p in may:
                alts += [cur, None]
            allowed[p] = _dedup(alts)
        actual = [(t[1], bytes(t[2]), t[3], bool(t[4])) for t in live]
        choice = _match(allowed, actual)
        if op[0] == "Disconnect":
            spec.conn = False
        if choice is not None:
            spec.run = choice
            if op[0] in ("PdoUpdate", "PdoSetVar"):
                P = spec.pdo[op[1]]
                if choice[f"pdo{op[1]}"] is not None and choice[f"pdo{op[1]}"][1] != P["start_payload"]:
                    P["effective"] = True
            continue
        # ---- the property fails here: classify
        first = {p: a[0] for p, a in allowed.items()}
        exp = sorted(f for f in first.values() if f is not None)
        act = sorted(actual)
        where = f"call #{n} {op!r} on the {'modify_data' if c['modify'] else 'no-modify_data'} bus: live {act!r}, statement allows {exp!r}"
        if len(act) > len(exp):
            extra = [f for f in act if f not in exp] or act
            nature = "task_left_running" if any(f in [x for x in old.values() if x] for f in extra) or must else "extra_task"
        elif len(act) < len(exp):
            nature = "task_missing"
        else:
            da = [f for f in act if f not in exp]
            de = [f for f in exp if f not in act]
            nature = "wrong_frame"
            if len(da) == 1 and len(de) == 1:
                a, e = da[0], de[0]
                if (a[0], a[2], a[3]) == (e[0], e[2], e[3]):
                    nature = "stale_payload"
                elif (a[0], a[1], a[3]) == (e[0], e[1], e[3]):
                    nature = "wrong_period"
                if nature == "stale_payload" and op[0] in ("PdoUpdate", "PdoSetVar") and not c["modify"]:
                    P = spec.pdo[op[1]]
                    if P["inplace"] and not P["effective"] and a[1] == P["start_payload"]:
                        return ("pdo_inplace_update_lost_nomodify",
                                "PdoMap: in-place payload change after start() not transmitted on a bus without modify_data; " + where)
        return (f"{nature}:{op[0]}", where)
    if len(o) != len(c["ops"]):
        return ("harness_setup_failed", "observation length")
    return None


# ------------------------------------------------------------------------------------ Gallina printing
def _gop(op):
    k = op[0]
    if k in ("SyncStop", "HbStop", "HbUpdate", "GuardStop", "Disconnect"): return k
    if k in ("SyncStart", "SyncSetPeriod"): return f"{k} {gopt(op[1])}"
    if k == "PdoSetCob": return f"PdoSetCob {op[1]}%nat {gz(op[2])}"
    if k == "PdoSetPeriod": return f"PdoSetPeriod {op[1]}%nat {gopt(op[2])}"
    if k == "PdoStart": return f"PdoStart {op[1]}%nat {gopt(op[2])}"
    if k in ("PdoStop", "PdoUpdate"): return f"{k} {op[1]}%nat"
    if k in ("PdoPoke", "PdoSetVar"): return f"{k} {op[1]}%nat {op[2]}%nat {gz(op[3])}"
    if k == "PdoAssign": return f"PdoAssign {op[1]}%nat {gzlist(op[2])}"
    if k in ("HbStart", "NmtCmd", "GuardStart"): return f"{k} {gz(op[1])}"
    if k in ("NmtRecv", "ObjWrite"): return f"{k} {gz(op[1])} {gz(op[2])}"
    raise ValueError(k)


def coq_case(c):
    pdos = glist([f"({gz(cob)}, {gzlist(d)})" for cob, d in c["pdos"]])
    cfg = f"(mkCfg {gbool(c['modify'])} {gz(c['local'])} {gz(c['remote'])} {gz(c['hb_default'])} {pdos})"
    return f"PCase {cfg} {glist([_gop(op) for op in c['ops']])}"


# ------------------------------------------------------------------------------------ generators
def _producer_of(op):
    k = op[0]
    if k.startswith("Sync"): return "sync"
    if k.startswith("Pdo"): return f"pdo{op[1]}"
    if k.startswith("Guard"): return "guard"
    if k == "Disconnect": return "all"
    return "hb"


def nontrivial(c):
    started = set()
    for op in c["ops"]:
        p = _producer_of(op)
        if p == "all":
            if any(s.startswith("pdo") for s in started): return True
            continue
        if p in started: return True
        if op[0] in ("SyncStart", "PdoStart", "HbStart", "GuardStart", "ObjWrite", "NmtCmd"):
            started.add(p)
    return False


PERIODS = [None, 0, 1, 2, 5, 10, 100, 250, 1000, 65535, 100000]
HB_TIMES = [0, 1, 2, 10, 999, 1000, 1001, 32767, 32768, 65534, 65535]
CODES = [1, 2, 128, 129, 130, 80, 96, 128, 128, 129, 3, 0, 255]


def _period(rng, allow_none=True):
    r = rng.random()
    if r < 0.55:
        p = rng.choice(PERIODS)
    elif r < 0.8:
        p = rng.randint(1, 2000)
    else:
        p = rng.randint(1, 100000)
    if p is None and not allow_none:
        p = 0
    return p


def _hbtime(rng):
    return rng.choice(HB_TIMES) if rng.random() < 0.6 else rng.randint(0, 65535)


COBS = [0x181, 0x1C2, 0x203, 0x7FF, 0x800, 0x80, 0x702, 0x1ABCDE]


def _cob(rng, c, j):
    return rng.choice(COBS + [c["pdos"][j][0], rng.randint(1, 0x7FF)])


def attr_restart(rng, c):
    """assign cob_id / period (or SyncProducer.period) while running, then start() again with the same or no period"""
    ops = []
    if rng.random() < 0.75:
        j = rng.randrange(len(c["pdos"]))
        p = rng.choice([1, 10, 100, 500, rng.randint(1, 5000)])
        ops.append(["PdoStart", j, p])
        if rng.random() < 0.4:
            ops.append(gen_op(rng, c))
        new_p = p
        how = rng.random()
        if how < 0.45 or how > 0.8:
            ops.append(["PdoSetCob", j, _cob(rng, c, j)])
        if how > 0.45:
            new_p = rng.choice([p + 1, 2 * p, 1, p, None, 0])
            ops.append(["PdoSetPeriod", j, new_p])
        if rng.random() < 0.3:
            ops.append(rng.choice([["PdoUpdate", j], ["PdoSetVar", j, 0, rng.randrange(256)], gen_op(rng, c)]))
        ops.append(["PdoStart", j, rng.choice([None, None, p, new_p])])
        if rng.random() < 0.5:
            ops.append(rng.choice([["PdoStop", j], ["PdoStart", j, None], ["PdoUpdate", j]]))
    else:
        p = rng.choice([1, 10, 100, rng.randint(1, 5000)])
        ops.append(["SyncStart", p])
        new_p = rng.choice([p + 1, 2 * p, 1, p, None, 0])
        ops.append(["SyncSetPeriod", new_p])
        ops.append(["SyncStart", rng.choice([None, None, p, new_p])])
        if rng.random() < 0.5:
            ops.append(rng.choice([["SyncStop"], ["SyncStart", None]]))
    return ops


def gen_config(rng):
    local = rng.choice([1, 2, 5, 64, 126, 127, rng.randint(1, 127)])
    remote = rng.choice([x for x in (1, 2, 3, 10, 127, rng.randint(1, 127)) if x != local])
    n = rng.choice([1, 2, 3, 4, 4, 6])
    pdos = []
    for j in range(n):
        cob = rng.choice([0x180 + local, 0x200 + remote, 0x280 + j, 0x80, 0x700 + local, 0x7FF, 0x800, 0x1ABCDE, rng.randint(1, 0x7FF)])
        ln = rng.choice([0, 1, 2, 3, 8, rng.randint(1, 8)])
        pdos.append([cob, [rng.choice([0, 0xFF, rng.randrange(256)]) for _ in range(ln)]])
    c = dict(kind="seq", modify=rng.random() < 0.5, local=local, remote=remote,
             hb_default=rng.choice([0, 0, 1, 500, 1000, 65535, rng.randint(0, 65535)]), pdos=pdos)
    r = rng.random()
    if r < 0.4:
        # nodes without PDO support at various positions among the registered nodes
        order = ["loc", "rem"] if rng.random() < 0.5 else ["rem", "loc"]
        free = [x for x in range(1, 128) if x not in (local, remote)]
        for nid in rng.sample(free, rng.choice([1, 1, 2, 3])):
            order.insert(rng.randrange(len(order) + 1), nid)
        c["order"] = order
    elif r < 0.5:
        c["order"] = ["rem", "loc"]
    return c


def gen_op(rng, c, focus=None):
    npdo = len(c["pdos"])
    fam = focus or rng.choice(["sync", "pdo", "pdo", "pdo", "hb", "hb", "hb", "guard", "disc"])
    if fam == "sync":
        return rng.choice([["SyncStart", _period(rng)], ["SyncStart", _period(rng)], ["SyncStart", None], ["SyncStop"],
                           ["SyncSetPeriod", _period(rng)]])
    if fam == "guard":
        return rng.choice([["GuardStart", _period(rng, False)], ["GuardStart", _period(rng, False)], ["GuardStop"]])
    if fam == "disc":
        return ["Disconnect"] if rng.random() < 0.06 else gen_op(rng, c, rng.choice(["sync", "pdo", "hb", "guard"]))
    if fam == "pdo":
        j = rng.randrange(npdo)
        ln = len(c["pdos"][j][1])
        r = rng.random()
        if r < 0.06: return ["PdoSetCob", j, _cob(rng, c, j)]
        if r < 0.11: return ["PdoSetPeriod", j, _period(rng)]
        if r < 0.3: return ["PdoStart", j, _period(rng)]
        if r < 0.4: return ["PdoStop", j]
        if r < 0.55: return ["PdoUpdate", j]
        if r < 0.7: return ["PdoPoke", j, rng.randrange(ln + 1) if rng.random() < 0.1 or ln == 0 else rng.randrange(ln), rng.randrange(256)]
        if r < 0.8: return ["PdoAssign", j, [rng.randrange(256) for _ in range(ln if rng.random() < 0.85 else rng.randrange(9))]]
        return ["PdoSetVar", j, rng.randrange(ln + 1) if rng.random() < 0.1 or ln == 0 else rng.randrange(ln), rng.randrange(256)]
    r = rng.random()
    if r < 0.15: return ["HbStart", _hbtime(rng)]
    if r < 0.22: return ["HbStop"]
    if r < 0.28: return ["HbUpdate"]
    if r < 0.55: return ["NmtCmd", rng.choice(CODES)]
    if r < 0.7: return ["NmtRecv", rng.choice(CODES), rng.choice([c["local"], c["local"], 0, c["remote"], 200])]
    if r < 0.95: return ["ObjWrite", HB_INDEX, _hbtime(rng)]
    return ["ObjWrite", OTHER_U16, _hbtime(rng)]


def gen_seq(rng, maxlen):
    c = gen_config(rng)
    n = rng.randint(1, maxlen)
    style = rng.random()
    focus = None
    if style < 0.35:
        focus = rng.choice(["sync", "pdo", "hb", "guard"])
    ops = []
    for _ in range(n):
        if rng.random() < 0.04:
            ops += attr_restart(rng, c)
        else:
            ops.append(gen_op(rng, c, focus if rng.random() < 0.8 else None))
    if style > 0.88:
        ops = attr_restart(rng, c) + ops[:rng.randrange(0, 6)] + attr_restart(rng, c)
    if rng.random() < 0.3:
        ops.append(["Disconnect"])
        for _ in range(rng.randrange(0, 4)):
            ops.append(gen_op(rng, c))
    c["ops"] = ops
    return c


def boundary_cases():
    """hand-written families that the proofs' case splits expose (always run)"""
    out = []
    for modify in (True, False):
        base = dict(kind="seq", modify=modify, local=2, remote=3, hb_default=0,
                    pdos=[[0x203, [0, 0, 0]], [0x182, [1, 2]], [0x183, []], [0x202, [9] * 8]])
        def mk(ops, **kw):
            out.append(dict(base, ops=ops, **kw))
        # restart without stop, every producer
        mk([["SyncStart", 100], ["SyncStart", 200], ["SyncStart", None], ["SyncStop"], ["SyncStop"], ["SyncStart", None]])
        mk([["SyncStart", None], ["SyncStart", 0], ["SyncStart", 100], ["SyncStart", 0], ["SyncStart", None], ["SyncStop"]])
        mk([["PdoStart", 0, 500], ["PdoStart", 0, 500], ["PdoStart", 0, None], ["PdoStart", 0, 0], ["PdoStart", 0, None]])
        mk([["GuardStart", 300], ["GuardStart", 400], ["GuardStop"], ["GuardStop"], ["GuardStart", 0]])
        mk([["HbStart", 1000], ["HbStart", 500], ["HbStart", 0], ["HbStart", 1], ["HbStop"], ["HbUpdate"]])
        # data updates: in place, replaced, equal data, after stop
        mk([["PdoStart", 0, 500], ["PdoSetVar", 0, 0, 7], ["PdoSetVar", 0, 0, 9], ["PdoSetVar", 0, 0, 9], ["PdoStop", 0], ["PdoSetVar", 0, 1, 1], ["PdoUpdate", 0]])
        mk([["PdoStart", 0, 500], ["PdoPoke", 0, 2, 255], ["PdoUpdate", 0], ["PdoUpdate", 0], ["PdoAssign", 0, [1, 2, 3]], ["PdoUpdate", 0], ["PdoPoke", 0, 0, 0], ["PdoPoke", 0, 0, 1], ["PdoUpdate", 0]])
        mk([["PdoStart", 1, 10], ["PdoAssign", 1, [1, 2]], ["PdoUpdate", 1], ["PdoAssign", 1, [5]], ["PdoUpdate", 1], ["PdoSetVar", 1, 1, 4], ["PdoStart", 1, None]])
        mk([["PdoStart", 2, 10], ["PdoUpdate", 2], ["PdoPoke", 2, 0, 1], ["PdoSetVar", 2, 0, 1], ["PdoStop", 2]])
        # attributes assigned while running, then start() with the same / no period
        mk([["PdoStart", 0, 100], ["PdoSetCob", 0, 0x1C2], ["PdoStart", 0, None], ["PdoSetCob", 0, 0x1C3], ["PdoStart", 0, 100], ["PdoStop", 0]])
        mk([["PdoStart", 1, 100], ["PdoSetPeriod", 1, 200], ["PdoStart", 1, None], ["PdoSetPeriod", 1, 300], ["PdoUpdate", 1], ["PdoStart", 1, 300],
            ["PdoSetPeriod", 1, None], ["PdoStart", 1, None], ["PdoSetPeriod", 1, 0], ["PdoStart", 1, None]])
        mk([["PdoSetCob", 0, 0x800], ["PdoSetPeriod", 0, 50], ["PdoStart", 0, None], ["PdoSetVar", 0, 0, 1], ["PdoSetCob", 0, 0x203], ["PdoSetVar", 0, 0, 2],
            ["PdoStart", 0, 50], ["Disconnect"]])
        mk([["SyncStart", 100], ["SyncSetPeriod", 200], ["SyncStart", None], ["SyncSetPeriod", 0], ["SyncStart", None], ["SyncSetPeriod", None],
            ["SyncStart", None], ["SyncStart", 300], ["SyncSetPeriod", 300], ["SyncStart", 300]])
        # heartbeat: boot, 0x1017, state changes, reset
        mk([["NmtCmd", 128], ["ObjWrite", HB_INDEX, 1000], ["NmtCmd", 1], ["NmtCmd", 1], ["NmtCmd", 129], ["NmtCmd", 128], ["ObjWrite", HB_INDEX, 0], ["NmtCmd", 2]])
        mk([["NmtCmd", 128], ["NmtCmd", 1], ["NmtRecv", 2, 2], ["NmtRecv", 1, 0], ["NmtRecv", 128, 3], ["NmtCmd", 130], ["NmtRecv", 128, 2]], hb_default=250)
        mk([["ObjWrite", HB_INDEX, 65535], ["ObjWrite", HB_INDEX, 1], ["ObjWrite", OTHER_U16, 0], ["ObjWrite", OTHER_U16, 5], ["HbStop"], ["NmtCmd", 129], ["NmtCmd", 128], ["ObjWrite", HB_INDEX, 0], ["NmtCmd", 129], ["NmtCmd", 128]])
        mk([["HbStart", 100], ["NmtCmd", 3], ["NmtCmd", 255], ["NmtCmd", 80], ["NmtCmd", 96], ["HbStop"], ["NmtCmd", 1]])
        # disconnect
        mk([["PdoStart", 0, 10], ["PdoStart", 1, 20], ["PdoStart", 2, 30], ["PdoStart", 3, 40], ["SyncStart", 5], ["HbStart", 7], ["GuardStart", 9], ["Disconnect"],
            ["PdoStart", 0, 10], ["SyncStart", 6], ["NmtCmd", 129], ["NmtCmd", 1], ["HbStart", 3], ["GuardStart", 1], ["Disconnect"], ["SyncStop"], ["GuardStop"]])
        mk([["Disconnect"], ["PdoStart", 0, 10], ["ObjWrite", HB_INDEX, 5], ["NmtCmd", 128], ["PdoUpdate", 0]], hb_default=9)
        # nodes without PDO support registered before / between / after the nodes whose maps are running
        for order in ([9, "loc", "rem"], ["loc", 9, "rem"], ["rem", 9, "loc"], ["loc", "rem", 9], [9, 10, "rem", 11, "loc", 12]):
            mk([["PdoStart", 0, 10], ["PdoStart", 1, 20], ["PdoStart", 2, 30], ["PdoStart", 3, 40], ["SyncStart", 5], ["Disconnect"], ["PdoStop", 0]],
               order=order)
        # everything interleaved
        mk([["SyncStart", 10], ["PdoStart", 0, 10], ["HbStart", 10], ["GuardStart", 10], ["SyncStart", 11], ["PdoStart", 0, 11], ["HbStart", 11], ["GuardStart", 11],
            ["SyncStop"], ["PdoStop", 0], ["HbStop"], ["GuardStop"]])
    return out


def gen_cases(rng, tier):
    n, maxlen = {"quick": (700, 28), "thorough": (7000, 60), "search": (1500, 30)}[tier]
    cases = boundary_cases()
    for _ in range(n):
        cases.append(gen_seq(rng, maxlen if rng.random() < 0.8 else 8))
    return cases


def shrink(c):
    ops = c["ops"]
    for i in range(len(ops) - 1, -1, -1):
        yield dict(c, ops=ops[:i] + ops[i + 1:])
    order = c.get("order")
    if order is not None:
        for i, e in enumerate(order):
            if not isinstance(e, str):
                yield dict(c, order=order[:i] + order[i + 1:])
    if len(c["pdos"]) > 1 and all(not op[0].startswith("Pdo") or op[1] < len(c["pdos"]) - 1 for op in ops):
        yield dict(c, pdos=c["pdos"][:-1])


def neighbours(c, rng):
    for _ in range(40):
        ops = [list(op) for op in c["ops"]]
        r = rng.random()
        if r < 0.4 and ops:
            i = rng.randrange(len(ops))
            ops.insert(i, list(ops[rng.randrange(len(ops))]))
        elif r < 0.8:
            ops.insert(rng.randrange(len(ops) + 1), gen_op(rng, c))
        else:
            ops = ops[:rng.randrange(len(ops) + 1)]
        yield dict(c, ops=ops)
        yield dict(c, ops=ops, modify=not c["modify"])
