"""C11 - NMT commands, states and heartbeats follow the CiA 301 state machine."""
import itertools, logging, threading, time

from vlib.obs import S, Err, guarded, canon_exc, gz, gzlist, gstr, gbool, glist, E_FUEL, E_NMT
from ref import nmt as R

PROP = "C11"
ANCHORS = [('canopen.nmt', 'NmtBase'), ('canopen.nmt', 'NmtMaster.on_heartbeat'), ('canopen.nmt', 'NmtMaster.send_command'), ('canopen.nmt', 'NmtMaster.wait_for_heartbeat'), ('canopen.nmt', 'NmtMaster.wait_for_bootup'), ('canopen.nmt', 'NmtSlave.on_command'), ('canopen.nmt', 'NmtSlave.send_command'), ('canopen.nmt', 'NmtSlave.update_heartbeat')]
MODEL_VO = ["theories/Model/Nmt.vo"]
COQ_IMPORTS = "From CV Require Import Model.RefNmt Model.Nmt."
COQ_RUN = "run_nmt"
COQ_CASE_TYPE = "nmt_case"
RULE = ("cases = event sequences on one simulated synchronous bus carrying a LocalNode (slave), the RemoteNode for the same id "
        "(master view), a RemoteNode for another id and the broadcast master Network.nmt; events = master send_command / state "
        "setter (own, broadcast, other), raw frames on CAN id 0, raw heartbeats on 0x700+id, slave-local state assignments, "
        "0x1017 writes, heartbeat ticks; all sequences up to length 3 (quick) / 4 (thorough) over the 7 defined command "
        "specifiers plus undefined ones x targets {own, 0, other}; all 256 heartbeat bytes each with its toggled twin; all 256 "
        "command codes; all state names, near misses and random strings; scripted and real-thread waits; heartbeat producer "
        "on / off / on histories (0x1017 writes of 0 and non-zero values, the same value twice, boot sequences) around every "
        "triple of commanded states with a tick after every step. "
        "non-trivial = a sequence of >= 2 events with at least one defined command addressed to the node or to all nodes, "
        "a sweep, or a wait with at least one arrival; distinct by canonical JSON of the case")
EXHAUSTIVE = {"thorough": True}
EXPLANATION = ("thorough tier runs ALL 24^4 command sequences of length 4 (7 defined specifiers + 1 undefined, 3 targets) and "
               "all shorter ones through implementation + oracle; the quick tier runs all sequences up to length 3")
TRUSTED = ["modelled, not verified: threading.Condition wake-ups and time.time() inside NmtMaster.wait_for_heartbeat / "
           "wait_for_bootup (the selection logic is modelled as a scan over what arrives during each wait and tied by a scripted "
           "condition object and clock; real threads are exercised against the oracle only)",
           "modelled, not verified: python-can Message construction (byte range check of the frame data) and the cyclic send "
           "task behind Network.send_periodic (a fake bus records the task and its payload)"]
ASSUMPTIONS = ["the simulated bus delivers every frame synchronously to every subscriber, including the sender's own node objects",
               "Sleep (80) and Standby (96) are taken from the CiA 447/454 power-management extension; CiA 301 itself defines "
               "command specifiers 1, 2, 128, 129, 130 and state bytes 0, 4, 5, 127",
               "INITIALISING is a resting state of LocalNode until the application assigns another state (no automatic "
               "transition to PRE-OPERATIONAL is implemented); the reference machine follows the same convention"]

logging.disable(logging.CRITICAL)
WHO = ("own", "oth", "bc")
UNDEF_CS = (0, 3, 79, 127, 131, 255)


def Name(s):
    """a reported state name; the six standard names are abbreviated to their index in ref.nmt.STATES
    (same recoding as name_val in Model/Nmt.v; keeps the generated Coq case files small)"""
    return R.STATES.index(s) if s in R.STATES else S(s)


def _show(x):
    return repr(_txt(x)) if isinstance(x, (int, S)) and not isinstance(x, bool) else repr(x)


def _txt(x):
    """text of an observed name"""
    return R.STATES[x] if isinstance(x, int) else x.s


# ------------------------------------------------------------------ simulated system
class _Cyclic:
    def __init__(self, msg, period):
        self.msg, self.period, self.running = msg, period, True
    def stop(self): self.running = False
    def modify_data(self, msg): self.msg = msg


class _Bus:
    """Stands in for a python-can bus: synchronous delivery to the Network, cyclic tasks recorded."""
    channel_info = "c11"
    def __init__(self, loop=True):
        self.net, self.frames, self.tasks, self.loop = None, [], [], loop
    def send(self, msg, timeout=None):
        self.frames.append([msg.arbitration_id, bytes(msg.data)])
        if self.loop:       # hand the frame to the subscribers of the (single) Network
            self.net.notify(msg.arbitration_id, bytearray(msg.data), 0.0)
    def send_periodic(self, msg, period, *a, **k):
        t = _Cyclic(msg, period)
        self.tasks.append(t)
        return t
    def running(self):
        return [t for t in self.tasks if t.running]


_OD_CACHE = {}


def _od(default):
    from canopen import objectdictionary as odm
    od = odm.ObjectDictionary()
    v = odm.ODVariable("Producer heartbeat time", 0x1017, 0)
    v.data_type = odm.UNSIGNED16
    v.access_type = "rw"
    v.default = default
    od.add_object(v)
    return od


class System:
    def __init__(self, own, oth, od0, loop=True):
        import canopen
        self.own, self.oth = own, oth
        self.bus = _Bus(loop)
        self.net = canopen.Network(self.bus)
        self.bus.net = self.net
        self.slave = canopen.LocalNode(own, _od(od0))
        self.slave.associate_network(self.net)
        if 0 not in _OD_CACHE:
            _OD_CACHE[0] = _od(0)
        self.master = canopen.RemoteNode(own, _OD_CACHE[0])
        self.master.associate_network(self.net)
        self.other = canopen.RemoteNode(oth, _OD_CACHE[0])
        self.other.associate_network(self.net)
        self.cbs = []
        self.master.nmt.add_heartbeat_callback(self.cbs.append)

    def nmt_of(self, who):
        return {"own": self.master.nmt, "oth": self.other.nmt, "bc": self.net.nmt}[who]

    def do(self, ev):
        k = ev[0]
        if k == "cmd":
            self.nmt_of(ev[1]).send_command(ev[2])
        elif k == "name":
            self.nmt_of(ev[1]).state = ev[2]
        elif k == "raw":
            self.net.notify(0, bytearray(ev[1]), 0.0)
        elif k == "hb":
            self.net.notify(0x700 + self.own, bytearray(ev[1]), 0.0)
        elif k == "scmd":
            self.slave.nmt.send_command(ev[1])
        elif k == "sname":
            self.slave.nmt.state = ev[1]
        elif k == "sethb":
            self.slave.sdo[0x1017].raw = ev[1]
        elif k == "tick":
            for t in self.bus.running():
                self.bus.send(t.msg)
        else:
            raise ValueError(k)

    def step(self, ev):
        self.bus.frames = []
        del self.cbs[:]
        err = None
        try:
            self.do(ev)
        except Exception as e:  # noqa: BLE001
            err = canon_exc(e)
        run = self.bus.running()
        tasks = [[bytes(t.msg.data), int(round(t.period * 1000))] for t in run]
        task = None if not tasks else (tasks[0] if len(tasks) == 1 else tasks)
        return [Name(self.master.nmt.state), Name(self.slave.nmt.state), Name(self.other.nmt.state), Name(self.net.nmt.state),
                [list(f) for f in self.bus.frames], list(self.cbs), err, task]


# ------------------------------------------------------------------ scripted condition variable / clock
class _Exhausted(Exception):
    pass


class _ScriptCond:
    """Replaces NmtMaster.state_update: wait() delivers the next scripted batch of heartbeats inline."""
    def __init__(self, net, can_id, batches):
        self.net, self.can_id, self.batches = net, can_id, list(batches)
    def __enter__(self): return self
    def __exit__(self, *a): return False
    def notify_all(self): pass
    def wait(self, timeout=None):
        if not self.batches:
            raise _Exhausted()
        for b in self.batches.pop(0):
            self.net.notify(self.can_id, bytearray([b]), 0.0)
        return True


class _ScriptClock:
    """Replaces the `time` module inside canopen.nmt for wait_for_bootup: first call fixes end_time,
    then one call per loop iteration; `late` decides whether that `now` is past end_time."""
    def __init__(self, lates):
        self.lates, self.first = list(lates), True
    def time(self):
        if self.first:
            self.first = False
            return 1000.0
        if not self.lates:
            raise _Exhausted()
        return 1e9 if self.lates.pop(0) else 1000.0


def _wait_obs(f, master):
    try:
        r = f()
        r = Name(r) if isinstance(r, str) else r
    except _Exhausted:
        r = Err(E_FUEL, "script exhausted")
    except Exception as e:  # noqa: BLE001
        r = canon_exc(e)
    return [r, Name(master.nmt.state)]


def _impl_wait_scripted(c):
    import canopen.nmt as nmtmod
    sysm = System(5, 6, 0)
    m = sysm.master
    for b in c["pre"]:
        sysm.net.notify(0x705, bytearray([b]), 0.0)
    if c["kind"] == "wait_hb":
        m.nmt.state_update = _ScriptCond(sysm.net, 0x705, [c["arr"]])
        return _wait_obs(lambda: m.nmt.wait_for_heartbeat(1), m)
    m.nmt.state_update = _ScriptCond(sysm.net, 0x705, [s[1] for s in c["slices"]])
    real = nmtmod.time
    nmtmod.time = _ScriptClock([s[0] for s in c["slices"]])
    try:
        return _wait_obs(lambda: m.nmt.wait_for_bootup(1), m)
    finally:
        nmtmod.time = real


def _impl_wait_thread(c):
    sysm = System(5, 6, 0)
    m = sysm.master
    cond = m.nmt.state_update
    def feeder():
        # a message only counts for the property if it arrives while the master is waiting: hold each one
        # back until a waiter is registered on the condition variable (a busy machine can delay the
        # waiting thread by more than the nominal delay)
        t0 = time.monotonic()
        for delay_ms, b in c["feed"]:
            dt = t0 + delay_ms / 1000.0 - time.monotonic()
            if dt > 0:
                time.sleep(dt)
            limit = time.monotonic() + 5.0
            while not getattr(cond, "_waiters", True) and time.monotonic() < limit:
                time.sleep(0.001)
            sysm.net.notify(0x705, bytearray([b]), time.time())
    th = threading.Thread(target=feeder, daemon=True)
    th.start()
    try:
        if c["fn"] == "hb":
            return _wait_obs(lambda: m.nmt.wait_for_heartbeat(c["timeout_ms"] / 1000.0), m)[:1]
        return _wait_obs(lambda: m.nmt.wait_for_bootup(c["timeout_ms"] / 1000.0), m)[:1]
    finally:
        th.join()


# ------------------------------------------------------------------ sweep (all continuations of a prefix)
def _sweep_alphabet(c):
    return [[w, cs] for w in WHO for cs in c["cs"]]


def _idx(name):
    return R.STATES.index(name) if name in R.STATES else 255


def _impl_sweep(c):
    out = bytearray()
    alpha = _sweep_alphabet(c)
    for suffix in itertools.product(alpha, repeat=c["depth"]):
        sysm = System(c["own"], c["oth"], 0)
        for w, cs in list(c["prefix"]) + list(suffix):
            o = sysm.step(["cmd", w, cs])
            fr = o[4]
            bad = o[6] is not None or any(f[0] != 0 or len(f[1]) != 2 for f in fr)
            out += bytes([_idx(_txt(o[0])), _idx(_txt(o[1])), _idx(_txt(o[2])), (len(fr) & 0x7F) | (0x80 if bad else 0),
                          fr[0][1][0] if fr and len(fr[0][1]) > 0 else 255,
                          fr[0][1][1] if fr and len(fr[0][1]) > 1 else 255])
    return bytes(out)


def impl(c):
    k = c["kind"]
    if k == "seq":
        def f():
            sysm = System(c["own"], c["oth"], c["od"], c.get("loop", True))
            return [sysm.step(ev) for ev in c["evs"]]
        return guarded(f)
    if k in ("wait_hb", "wait_boot"):
        return guarded(_impl_wait_scripted, c)
    if k == "wait_thr":
        return guarded(_impl_wait_thread, c)
    if k == "sweep":
        return guarded(_impl_sweep, c)
    raise ValueError(k)


# ------------------------------------------------------------------ oracle (reference peers, CiA 301)
def _view_ok(view_state, reported):
    """reported: the str returned by `.state`"""
    if isinstance(view_state, tuple):          # a state byte the standard does not define
        return reported not in R.STATES
    return reported == view_state


def _oracle_seq(c, o):
    if isinstance(o, Err):
        return ("harness_error", repr(o))
    own, oth = c["own"], c["oth"]
    loop = c.get("loop", True)        # False: frames sent through the Network only leave (nobody on it hears them)
    ids = {"own": own, "oth": oth, "bc": 0}
    node = R.RefNode(own)
    vown, voth = R.RefView(own), R.RefView(oth)
    unknown_names = {}
    for i, (ev, st) in enumerate(zip(c["evs"], o)):
        m_name, s_name, o_name, _b, frames, _cbs, err, _task = st
        m_name, s_name, o_name = _txt(m_name), _txt(s_name), _txt(o_name)
        where = f"step {i} {ev!r}"
        k = ev[0]
        cmd_frames = [f for f in frames if f[0] == 0]
        expect_cmd = None           # frame the master must send
        if k in ("cmd", "name"):
            tgt = ids[ev[1]]
            if k == "cmd":
                code = ev[2] if 0 <= ev[2] <= 255 else None
                skip = code is None         # not a byte: nothing the property demands
            else:
                code = R.NAME_CS.get(ev[2])
                skip = False
                if code is None:
                    if not isinstance(err, Err):
                        return ("invalid_name_accepted", f"{where}: no error raised")
                    if frames:
                        return ("invalid_name_sent_frame", f"{where}: frames {frames!r}")
            if code is not None:
                expect_cmd = [0, bytes([code, tgt])]
                if err is not None:
                    return ("command_raised", f"{where}: {err!r}")
                if cmd_frames != [expect_cmd]:
                    return ("master_frame_wrong", f"{where}: frames on CAN id 0 {cmd_frames!r}, expected {[expect_cmd]!r}")
                # the sender assumes the commanded state; everybody on the bus sees the frame
                (vown if ev[1] == "own" else voth if ev[1] == "oth" else R.RefNode(0)).local(code)
                if loop:
                    for x in (node, vown, voth):
                        x.command(code, tgt)
            elif not skip and cmd_frames:
                return ("invalid_name_sent_frame", f"{where}: {cmd_frames!r}")
        elif k == "raw":
            d = ev[1]
            if len(d) >= 2:
                for x in (node, vown, voth):
                    x.command(d[0], d[1])
            if cmd_frames:
                return ("unexpected_command_frame", f"{where}: {cmd_frames!r}")
        elif k == "hb":
            if ev[1]:
                vown.heartbeat(ev[1][0])
        elif k in ("scmd", "sname"):
            code = ev[1] if k == "scmd" else R.NAME_CS.get(ev[1])
            if k == "sname" and code is None:
                if not isinstance(err, Err):
                    return ("invalid_name_accepted", f"{where}: no error raised")
                if frames:
                    return ("invalid_name_sent_frame", f"{where}: frames {frames!r}")
            if code is not None:
                node.local(code)
            if cmd_frames:
                return ("unexpected_command_frame", f"{where}: {cmd_frames!r}")
        elif k in ("sethb", "tick"):
            if cmd_frames:
                return ("unexpected_command_frame", f"{where}: {cmd_frames!r}")
        # heartbeat / boot-up frames of the node that went over the bus in this step
        for f in frames:
            if f[0] == 0x700 + own:
                if k == "tick":
                    if len(f[1]) < 1 or (f[1][0] & 0x7F) != node.state_byte():
                        return ("heartbeat_payload_wrong", f"{where}: heartbeat {f[1].hex()} but the node is {node.state}")
                if len(f[1]) >= 1 and loop:
                    vown.heartbeat(f[1][0])
        # reported states
        if s_name != node.state:
            return ("slave_state_wrong", f"{where}: slave reports {s_name!r}, CiA 301 machine is in {node.state!r}")
        if not _view_ok(vown.state, m_name):
            return ("master_state_wrong", f"{where}: master reports {m_name!r}, expected {vown.state!r}")
        if isinstance(vown.state, tuple):
            prev = unknown_names.setdefault(vown.state[1], m_name)
            if prev != m_name:
                return ("toggle_bit_not_ignored", f"{where}: state byte {vown.state[1]} reported as {prev!r} and {m_name!r}")
        if not _view_ok(voth.state, o_name):
            return ("other_master_state_wrong", f"{where}: master of node {oth} reports {o_name!r}, expected {voth.state!r}")
    if len(o) != len(c["evs"]):
        return ("harness_error", "observation length")
    return None


def _oracle_sweep(c, o):
    if isinstance(o, Err):
        return ("harness_error", repr(o))
    own, oth = c["own"], c["oth"]
    ids = {"own": own, "oth": oth, "bc": 0}
    alpha = _sweep_alphabet(c)
    n = len(c["prefix"]) + c["depth"]
    pos = 0
    for suffix in itertools.product(alpha, repeat=c["depth"]):
        node, vown, voth = R.RefNode(own), R.RefView(own), R.RefView(oth)
        seq = list(c["prefix"]) + list(suffix)
        for i, (w, cs) in enumerate(seq):
            rec = o[pos:pos + 6]
            pos += 6
            tgt = ids[w]
            (vown if w == "own" else voth if w == "oth" else R.RefNode(0)).local(cs)
            for x in (node, vown, voth):
                x.command(cs, tgt)
            exp = bytes([R.STATES.index(vown.state), R.STATES.index(node.state), R.STATES.index(voth.state), 1, cs, tgt])
            if rec != exp:
                sig = ("master_frame_wrong" if rec[3:] != exp[3:] else "slave_state_wrong" if rec[1] != exp[1]
                       else "master_state_wrong" if rec[0] != exp[0] else "other_master_state_wrong")
                return (sig, f"sequence {seq!r} step {i}: observed (master, slave, other, nframes, cs, target) = {list(rec)}, "
                             f"expected {list(exp)} (state index into {R.STATES})")
    if pos != len(o):
        return ("harness_error", "sweep observation length")
    return None


def _oracle_wait(c, o):
    if isinstance(o, Err):
        return ("harness_error", repr(o))
    r = o[0]
    if c["kind"] == "wait_hb" or (c["kind"] == "wait_thr" and c["fn"] == "hb"):
        arr = c["arr"] if c["kind"] == "wait_hb" else [b for _, b in c["feed"]]
        if not arr:
            if not (isinstance(r, Err) and r.kind == E_NMT):
                return ("wait_heartbeat_no_error", f"nothing arrived but the result is {_show(r)}")
            return None
        if isinstance(r, Err):
            return ("wait_heartbeat_missed", f"heartbeats {arr!r} arrived but the wait failed with {r!r}")
        if c["kind"] == "wait_thr":
            # real threads: the waiter wakes after the first or any later arrival
            ok = any(_view_ok(R.wait_heartbeat_expect(arr[:j]), _txt(r)) for j in range(1, len(arr) + 1))
        else:
            ok = _view_ok(R.wait_heartbeat_expect(arr), _txt(r))
        if not ok:
            return ("wait_heartbeat_state_wrong", f"arrivals {arr!r}: returned {_show(r)}")
        return None
    # boot-up
    if c["kind"] == "wait_boot":
        in_time = []
        for late, arr in c["slices"]:
            if late:
                break
            in_time.append(arr)
        sure_hit = any(a and a[-1] & 0x7F == 0 for a in in_time)          # woken by the boot-up message
        any_boot = any(b & 0x7F == 0 for a in in_time for b in a)
        terminated = sure_hit or len(in_time) < len(c["slices"])
        if not terminated:
            return None
    else:
        bytes_ = [b for _, b in c["feed"]]
        sure_hit = any_boot = any(b & 0x7F == 0 for b in bytes_)
    if sure_hit:
        if r is not None:
            return ("wait_bootup_missed", f"a boot-up message arrived in time but the result is {r!r}")
        if o[1:] and _txt(o[1]) != R.PREOP:
            return ("bootup_not_preoperational", f"after the boot-up the master reports {_txt(o[1])!r}")
    elif not any_boot:
        if not (isinstance(r, Err) and r.kind == E_NMT):
            return ("wait_bootup_no_error", f"no boot-up message arrived in time but the result is {r!r}")
    return None


def oracle(c, o):
    k = c["kind"]
    if k == "seq":
        return _oracle_seq(c, o)
    if k == "sweep":
        return _oracle_sweep(c, o)
    return _oracle_wait(c, o)


# ------------------------------------------------------------------ Gallina printing
_WHO = {"own": "MOwn", "oth": "MOth", "bc": "MBc"}


def _gev(ev):
    k = ev[0]
    if k == "cmd": return f"ECmd {_WHO[ev[1]]} {gz(ev[2])}"
    if k == "name": return f"EName {_WHO[ev[1]]} {gstr(ev[2])}"
    if k == "raw": return f"ERaw {gzlist(ev[1])}"
    if k == "hb": return f"EHb {gzlist(ev[1])}"
    if k == "scmd": return f"ESCmd {gz(ev[1])}"
    if k == "sname": return f"ESName {gstr(ev[1])}"
    if k == "sethb": return f"ESetHb {gz(ev[1])}"
    if k == "tick": return "ETick"
    raise ValueError(k)


def coq_case(c):
    k = c["kind"]
    if k == "seq":
        return (f"CSeq {gbool(c.get('loop', True))} {gz(c['own'])} {gz(c['oth'])} {gz(c['od'])} "
                f"{glist([_gev(e) for e in c['evs']])}")
    if k == "wait_hb":
        return f"CWaitHb {gzlist(c['pre'])} {gzlist(c['arr'])}"
    if k == "wait_boot":
        return f"CWaitBoot {gzlist(c['pre'])} " + glist([f"({gbool(s[0])}, {gzlist(s[1])})" for s in c["slices"]])
    raise ValueError(k)


def nontrivial(c):
    k = c["kind"]
    if k == "seq":
        ids = {"own": c["own"], "oth": c["oth"], "bc": 0}
        def hits(ev):
            if ev[0] == "cmd": return ev[2] in R.CS_STATE and ev[1] != "oth"
            if ev[0] == "name": return ev[2] in R.NAME_CS and ev[1] != "oth"
            if ev[0] == "raw": return len(ev[1]) >= 2 and ev[1][0] in R.CS_STATE and ev[1][1] in (c["own"], 0)
            return False
        return len(c["evs"]) >= 2 and any(hits(e) for e in c["evs"])
    if k == "sweep":
        return True
    if k == "wait_hb": return len(c["arr"]) >= 1
    if k == "wait_boot": return any(s[1] for s in c["slices"])
    if k == "wait_thr": return len(c["feed"]) >= 1
    return False


# ------------------------------------------------------------------ generators
ID_PAIRS = [(5, 6), (1, 127), (127, 1), (2, 3), (42, 100), (16, 80)]
NEAR_MISS = ["", " ", "operational", "Operational", "OPERATIONAL ", " OPERATIONAL", "PRE_OPERATIONAL", "PREOPERATIONAL",
             "PRE-OPERATIONA", "PRE-OPERATIONALL", "STOP", "STOPPED\x00", "RESET_COMMUNICATION", "RESET  COMMUNICATION",
             "RESET COMMUNICATIO", "RESETCOMMUNICATION", "INITIALIZING", "INITIALISIN", "START", "BOOTUP", "BOOT-UP",
             "UNKNOWN STATE '75'", "0", "1", "129", "SLEEP\n", "STANDBY\t", "STÄNDBY", "☃", "RESET\U0001F600", "None"]


def _seq(own, oth, evs, od=0, loop=True, **kw):
    c = dict(kind="seq", own=own, oth=oth, od=od, evs=evs, **kw)
    if not loop:
        c["loop"] = False
    return c


def _rand_name(rng):
    r = rng.random()
    if r < 0.35:
        return rng.choice(list(R.NAME_CS))
    if r < 0.6:
        return rng.choice(NEAR_MISS)
    if r < 0.8:                       # one edit away from a valid name
        s = list(rng.choice(list(R.NAME_CS)))
        i = rng.randrange(len(s))
        op = rng.randrange(3)
        if op == 0: del s[i]
        elif op == 1: s[i] = chr(rng.randrange(32, 127))
        else: s.insert(i, chr(rng.randrange(32, 127)))
        return "".join(s)
    return "".join(chr(rng.choice([rng.randrange(32, 127), rng.randrange(32, 0x3000)])) for _ in range(rng.randrange(0, 14)))


def _rand_cs(rng):
    r = rng.random()
    if r < 0.7: return rng.choice(R.DEFINED_CS)
    if r < 0.85: return rng.choice(UNDEF_CS)
    return rng.randrange(256)


def _rand_event(rng, own, oth):
    r = rng.random()
    if r < 0.30: return ["cmd", rng.choice(WHO), _rand_cs(rng)]
    if r < 0.40: return ["name", rng.choice(WHO), _rand_name(rng)]
    if r < 0.55:
        n = rng.choice([2, 2, 2, 2, 3, 8, 1, 0])
        d = [_rand_cs(rng), rng.choice([own, 0, oth, own ^ 1, 128 + own, rng.randrange(256)])] + [rng.randrange(256) for _ in range(6)]
        return ["raw", d[:n]]
    if r < 0.70:
        b = rng.choice([0, 4, 5, 127, 80, 96, 0x80, 0x84, 0x85, 0xFF, 0xD0, 0xE0, rng.randrange(256)])
        n = rng.choice([1, 1, 1, 1, 2, 8, 0])
        return ["hb", ([b] + [rng.randrange(256) for _ in range(7)])[:n]]
    if r < 0.80: return ["scmd", _rand_cs(rng)]
    if r < 0.86: return ["sname", _rand_name(rng)]
    if r < 0.92: return ["sethb", rng.choice([0, 1, 100, 1000, 65535, rng.randrange(65536)])]
    return ["tick"]


def gen_cases(rng, tier):
    cases = []
    cs8 = list(R.DEFINED_CS) + [0]
    cs9 = cs8 + [131]
    alpha9 = [["cmd", w, cs] for w in WHO for cs in cs9]
    alpha8 = [["cmd", w, cs] for w in WHO for cs in cs8]
    own, oth = 5, 6
    # --- all command sequences, short ones through the model as well
    for n in (1, 2):
        for seq in itertools.product(alpha9, repeat=n):
            cases.append(_seq(own, oth, [list(e) for e in seq]))
    # the same without loop-back (the master's own frames only leave): what the master assumes
    for seq in itertools.product(alpha8, repeat=2):
        cases.append(_seq(own, oth, [["hb", [rng.choice([5, 0x85, 75, 1, 0, 0x80, 127])]]] + [list(e) for e in seq], loop=False))
    if tier != "search":
        for seq in itertools.product(alpha8, repeat=3):
            cases.append(_seq(own, oth, [list(e) for e in seq], model=False))
    if tier == "thorough":
        for pre in itertools.product([[w, cs] for w in WHO for cs in cs8], repeat=2):
            cases.append(dict(kind="sweep", own=own, oth=oth, prefix=[list(p) for p in pre], depth=2, cs=cs8, model=False))
    n4 = {"quick": 700, "thorough": 4000, "search": 3000}[tier]
    for _ in range(n4):
        o_, t_ = rng.choice(ID_PAIRS)
        n = rng.choice([3, 4, 4, 4])
        cases.append(_seq(o_, t_, [["cmd", rng.choice(WHO), _rand_cs(rng)] for _ in range(n)]))
    # --- every command code 0..255: through the master API and as a foreign frame for own / all / other
    for code in range(256):
        o_, t_ = ID_PAIRS[code % len(ID_PAIRS)]
        cases.append(_seq(o_, t_, [["cmd", "own", code], ["cmd", "own", 1], ["raw", [code, o_]], ["cmd", "bc", 128],
                                   ["raw", [code, 0]], ["cmd", "own", 2], ["raw", [code, t_]], ["cmd", "oth", code]]))
    for code in range(256):
        o_, t_ = ID_PAIRS[code % len(ID_PAIRS)]
        cases.append(_seq(o_, t_, [["hb", [code]], ["cmd", "own", code], ["hb", [75]], ["cmd", "own", code], ["raw", [code, 0]], ["tick"]],
                          loop=False, model=(tier != "quick" or code % 4 == 0)))
    # --- every addressee 0..255 of a foreign command frame
    for nid in range(256):
        cases.append(_seq(own, oth, [["raw", [1, nid]], ["raw", [2, nid ^ 0x80]], ["cmd", "own", 128], ["raw", [129, nid]]],
                          model=(tier != "quick" or nid % 2 == 0 or nid in (own, oth, 128 + own, 128 + oth, 127, 255))))
    for code in (-1, 256, 257, 300, -129, 1 << 32):
        cases.append(_seq(own, oth, [["cmd", "own", 1], ["cmd", "own", code], ["cmd", "bc", code], ["tick"]]))
    # --- all 256 heartbeat bytes, each followed by its toggled twin
    for b in range(256):
        cases.append(_seq(own, oth, [["hb", [b]], ["hb", [b ^ 0x80]], ["cmd", "own", rng.choice(R.DEFINED_CS)], ["hb", [b ^ 0x80, 7]],
                                   ["hb", [b]]]))
    # --- state names
    for name in list(R.NAME_CS):
        for w in WHO:
            cases.append(_seq(own, oth, [["cmd", "own", 2], ["name", w, name], ["tick"]]))
        cases.append(_seq(own, oth, [["scmd", 1], ["sname", name], ["tick"], ["sname", "PRE-OPERATIONAL"], ["tick"]], od=250))
    for name in NEAR_MISS:
        cases.append(_seq(own, oth, [["cmd", "own", 1], ["name", "own", name], ["sname", name], ["name", "bc", name]]))
    for _ in range({"quick": 120, "thorough": 1500, "search": 300}[tier]):
        cases.append(_seq(own, oth, [["cmd", "own", rng.choice(R.DEFINED_CS)], ["name", rng.choice(WHO), _rand_name(rng)],
                                     ["sname", _rand_name(rng)]]))
    # --- reset / boot-up / heartbeat service
    for od in (0, 1, 100, 65535):
        cases.append(_seq(own, oth, [["tick"], ["sname", "INITIALISING"], ["sname", "PRE-OPERATIONAL"], ["tick"], ["cmd", "own", 1],
                                     ["tick"], ["name", "own", "RESET"], ["tick"], ["sname", "RESET COMMUNICATION"],
                                     ["sname", "PRE-OPERATIONAL"], ["tick"], ["sethb", 0], ["tick"], ["sethb", 20], ["cmd", "bc", 2],
                                     ["tick"], ["raw", [1, own]], ["tick"], ["raw", [128, oth]], ["tick"]], od=od))
    for t in (-1, 65536):
        cases.append(_seq(own, oth, [["sethb", t], ["tick"]]))
    # --- heartbeat producer switched on / off / on around state changes: every triple of commanded states
    #     (state while running, state while off, state after the restart), the commands arriving by every route,
    #     the producer (re)started by a 0x1017 write (same or another value, also written twice) or by the
    #     INITIALISING -> PRE-OPERATIONAL transition, a tick after every step that can change what is reported
    def _route(k, cs, o_, t_):
        name = [n for n, c_ in R.NAME_CS.items() if c_ == cs][0]
        return [["cmd", "own", cs], ["cmd", "bc", cs], ["raw", [cs, o_]], ["raw", [cs, 0, 9]], ["scmd", cs],
                ["name", "own", name], ["sname", name]][k % 7]
    k = 0
    for a_, b_, c_ in itertools.product(R.DEFINED_CS, repeat=3):
        k += 1
        o_, t_ = ID_PAIRS[k % len(ID_PAIRS)]
        t1 = (10, 1, 1000, 65535)[k % 4]
        t2 = t1 if k % 3 else (20, 500)[k % 2]
        evs = [["sethb", t1], _route(k, a_, o_, t_), ["tick"], ["sethb", 0], ["tick"], _route(k // 7, b_, o_, t_), ["tick"],
               ["sethb", t2]] + ([["sethb", t2]] if k % 5 == 0 else []) + \
              [["tick"], _route(k // 49, c_, o_, t_), ["tick"], _route(k + 3, a_, o_, t_), ["tick"]]
        cases.append(_seq(o_, t_, evs, od=(0, t1)[k % 2], model=(tier != "quick" or k % 3 == 0)))
    for a_, c_ in itertools.product(R.DEFINED_CS, repeat=2):
        # producer started by the boot sequence of the slave, switched off, restarted by a second boot sequence
        k += 1
        cases.append(_seq(own, oth, [["sname", "INITIALISING"], ["sname", "PRE-OPERATIONAL"], ["tick"], _route(k, a_, own, oth), ["tick"],
                                     ["sethb", 0], _route(k // 7, c_, own, oth), ["tick"], ["sname", "RESET"], ["tick"],
                                     ["sethb", 30], ["sname", "PRE-OPERATIONAL"], ["tick"], _route(k + 1, a_, own, oth), ["tick"],
                                     _route(k + 2, c_, own, oth), ["tick"]], od=(40, 0)[k % 2], model=(tier != "quick" or k % 2 == 0)))
    for _ in range({"quick": 300, "thorough": 3000, "search": 1500}[tier]):
        o_, t_ = rng.choice(ID_PAIRS)
        evs = []
        for _ in range(rng.randrange(4, 14)):
            r = rng.random()
            if r < 0.30: evs.append(["sethb", rng.choice([0, 0, 10, 10, 10, 25, 65535])])
            elif r < 0.75: evs.append(_route(rng.randrange(7), rng.choice(R.DEFINED_CS), o_, t_))
            elif r < 0.80: evs.append(["raw", [rng.choice(R.DEFINED_CS), t_]])
            else: evs.append(["tick"])
            if rng.random() < 0.5: evs.append(["tick"])
        cases.append(_seq(o_, t_, evs + [["tick"]], od=rng.choice([0, 10]), loop=rng.random() < 0.8))
    # --- mixed random histories
    for _ in range({"quick": 500, "thorough": 5000, "search": 2500}[tier]):
        o_, t_ = rng.choice(ID_PAIRS)
        n = rng.randrange(1, 9)
        cases.append(_seq(o_, t_, [_rand_event(rng, o_, t_) for _ in range(n)], od=rng.choice([0, 0, 10, 500]),
                          loop=rng.random() < 0.75))
    # --- waits, scripted (deterministic stand-ins for the condition variable and the clock)
    hb_pool = [0, 0x80, 5, 0x85, 127, 4, 0x7F, 0xFF, 75, 80, 96]
    for _ in range({"quick": 60, "thorough": 600, "search": 100}[tier]):
        pre = [rng.choice(hb_pool) for _ in range(rng.randrange(0, 3))]
        arr = [rng.choice(hb_pool) for _ in range(rng.choice([0, 1, 1, 2, 3]))]
        cases.append(dict(kind="wait_hb", pre=pre, arr=arr))
        slices = []
        for _ in range(rng.randrange(0, 5)):
            slices.append([False, [rng.choice(hb_pool) for _ in range(rng.choice([0, 1, 1, 1, 2]))]])
        slices.append([True, [rng.choice(hb_pool) for _ in range(rng.choice([0, 0, 1]))]])
        cases.append(dict(kind="wait_boot", pre=pre, slices=slices))
    cases.append(dict(kind="wait_boot", pre=[0], slices=[[False, []], [False, [5]], [False, [0x80]]]))
    cases.append(dict(kind="wait_boot", pre=[], slices=[[False, [0, 5]], [False, [5, 0]]]))
    cases.append(dict(kind="wait_hb", pre=[5], arr=[]))
    # --- waits with a real feeder thread (oracle only)
    if tier != "search":
        thr = [dict(fn="hb", timeout_ms=40, feed=[]), dict(fn="boot", timeout_ms=40, feed=[]),
               dict(fn="hb", timeout_ms=2000, feed=[[15, 5]]), dict(fn="hb", timeout_ms=2000, feed=[[15, 0x85]]),
               dict(fn="hb", timeout_ms=2000, feed=[[15, 0]]), dict(fn="hb", timeout_ms=2000, feed=[[15, 0x7F]]),
               dict(fn="boot", timeout_ms=2000, feed=[[15, 0]]), dict(fn="boot", timeout_ms=2000, feed=[[10, 5], [120, 0x80]]),
               dict(fn="boot", timeout_ms=60, feed=[[10, 5], [30, 0x7F]]), dict(fn="boot", timeout_ms=2000, feed=[[5, 127], [110, 4], [220, 0]])]
        reps = 1 if tier == "quick" else 4
        for _ in range(reps):
            for t in thr:
                cases.append(dict(kind="wait_thr", model=False, **t))
    return cases


def shrink(c):
    if c["kind"] == "seq":
        evs = c["evs"]
        for i in range(len(evs)):
            if len(evs) > 1:
                yield dict(c, evs=evs[:i] + evs[i + 1:])
    elif c["kind"] == "sweep":
        # a failing sweep is replaced by its first failing sequence
        o = impl(c)
        f = oracle(c, o)
        if f is not None and "sequence [" in f[1]:
            import ast
            seq = ast.literal_eval(f[1].split("sequence ", 1)[1].split(" step ", 1)[0])
            yield _seq(c["own"], c["oth"], [["cmd", w, cs] for w, cs in seq])
    elif c["kind"] == "wait_boot":
        s = c["slices"]
        for i in range(len(s)):
            if len(s) > 1:
                yield dict(c, slices=s[:i] + s[i + 1:])


def neighbours(c, rng):
    if c["kind"] != "seq":
        return
    for _ in range(20):
        evs = [list(e) for e in c["evs"]]
        i = rng.randrange(len(evs)) if evs else 0
        if evs:
            evs[i] = _rand_event(rng, c["own"], c["oth"])
        evs.insert(rng.randrange(len(evs) + 1), ["cmd", rng.choice(WHO), _rand_cs(rng)])
        yield dict(c, evs=evs, model=True)
