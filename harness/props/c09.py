"""C09 - saving a PDO configuration follows the safe procedure and reads back identically."""
import collections
import logging

from vlib.obs import Err, Abort, guarded, gz, gbool, gopt, glist

PROP = "C09"
ANCHORS = [('canopen.pdo.base', 'PdoMap.save'), ('canopen.pdo.base', 'PdoMap.read'), ('canopen.pdo.base', 'PdoMap.subscribe'), ('canopen.pdo.base', 'PdoMap.add_variable'), ('canopen.pdo.base', 'PdoMap.clear'), ('canopen.pdo.base', 'PdoMaps.__init__'), ('canopen.pdo', 'RPDO'), ('canopen.pdo', 'TPDO'), ('canopen.node.remote', 'RemoteNode.load_configuration')]
MODEL_VO = ["theories/Model/PdoCfg.vo"]
COQ_IMPORTS = "From CV Require Import Model.StrictDevice Model.PdoCfg."
COQ_RUN = "run_pdocfg"
COQ_CASE_TYPE = "pdocfg_case"
RULE = ("cases = save_read (attributes + add_variable calls on a fresh RemoteNode map, save() against the Python strict "
        "device from a random prior register state, read() by a second fresh node), read (arbitrary device registers), "
        "from_od (read(from_od=True) of DCF values / defaults, then save and read back), load (RemoteNode.load_configuration "
        "with an RPDO and a TPDO in the dictionary; half of all dictionaries carry [DeviceInfo] NrOfRXPDO/NrOfTXPDO = the number "
        "of PDOs present, with sparse PDO numbers), history (several node objects and maps on one Network: set / map / "
        "save / read / device reset / node object moved to another Network / application unsubscribes, the k-th download or "
        "one upload aborted, colliding COB-IDs; after every operation: "
        "outcome, log, attributes, map layout, subscription table of the whole network), indices (PdoMaps layout); "
        "COB-IDs over 11- and 29-bit ranges incl. ends, all flag combinations, transmission types 0..255, optional "
        "sub-entries present/absent, 0..8 mapped objects, RPDO/TPDO, PDO numbers 1,2,3,4,5,512 and random, devices that "
        "start enabled with another mapping, strict / read-only-count / lenient device; non-trivial = a save or read "
        "that involves at least one mapped object or a device that starts valid; distinct by canonical JSON of the case")
EXHAUSTIVE = {}
EXPLANATION = ("compared per case: save() outcome and map attributes, ordered write log of the device (index, sub, value, "
               "verdict), final registers, attributes and subscription of the second node after read()")
TRUSTED = ["modelled, not verified: SDO transport (node.sdo.download/upload replaced by the strict device; covered by "
           "C01/C02), ODVariable.encode_raw/decode_raw byte level (C04), curtis_hack (off), logging",
           "harness/ref/strict_pdo_device.py (Python strict device) and its Gallina twin Model/StrictDevice.v, tied by the "
           "correspondence of the closed system (same abort codes, same log)"]
ASSUMPTIONS = ["the dictionary declares the CiA 301 types for the PDO parameter objects (UNSIGNED32 COB-ID, UNSIGNED8 "
               "transmission type / SYNC start / count, UNSIGNED16 inhibit time / event timer, UNSIGNED32 mapping entries) "
               "and top-level variables have sub-index 0",
               "theorems: cob_id < 2^29, 0 < index < 2^16, sub < 2^8, 0 < length < 128, parameters within their types, "
               "optional timers set only when the dictionary has the sub-entry, mapped objects present in the dictionary; "
               "for the strict device additionally: registers exist, entries mappable on the device, total <= 64 bits"]

NV, RTR = 1 << 31, 1 << 30
STATS = collections.Counter()    # how many cases met the hypotheses (the oracle made its demands)
BITS_DT = None


# ------------------------------------------------------------------ building the library objects
def _dts():
    global BITS_DT
    if BITS_DT is None:
        from canopen import objectdictionary as odm
        BITS_DT = {8: odm.UNSIGNED8, 16: odm.UNSIGNED16, 32: odm.UNSIGNED32, 64: odm.UNSIGNED64}
    return BITS_DT


def com_map_index(tpdo, n):
    """CiA 301 object numbering, written here from the standard"""
    return ((0x1800 if tpdo else 0x1400) + n - 1, (0x1A00 if tpdo else 0x1600) + n - 1)


COM_BITS = {0: 8, 1: 32, 2: 8, 3: 16, 4: 8, 5: 16, 6: 8}


def build_od(c, vals=None):
    from canopen import objectdictionary as odm
    dts = _dts()
    odd = c["od"]
    od = odm.ObjectDictionary()
    for o in odd["objs"]:
        if o[1] == "var":
            v = odm.ODVariable(f"v{o[0]:x}", o[0])
            v.data_type = dts[o[2]]
            od.add_object(v)
        else:
            r = odm.ODRecord(f"r{o[0]:x}", o[0])
            for s, b in o[2]:
                m = odm.ODVariable(f"m{s}", o[0], s)
                m.data_type = dts[b]
                r.add_member(m)
            od.add_object(r)
    numbers = sorted(set([c["n"]] + list(odd.get("others", []))))
    if odd.get("devinfo"):
        # what an EDS/DCF with [DeviceInfo] NrOfRXPDO / NrOfTXPDO gives: HOW MANY PDOs exist (not which numbers)
        od.device_information.nr_of_RXPDO = len(numbers)
        od.device_information.nr_of_TXPDO = len(numbers)
    for tp in (0, 1):
        for n in numbers:
            com, mp = com_map_index(tp, n)
            rec = odm.ODRecord(f"com{com:x}", com)
            for s in sorted(set([0] + list(odd["com"]))):
                m = odm.ODVariable(f"c{s}", com, s)
                m.data_type = dts[COM_BITS.get(s, 8)]
                rec.add_member(m)
            od.add_object(rec)
            if odd.get("array"):
                arr = odm.ODArray(f"map{mp:x}", mp)
                subs = (0, 1)
            else:
                arr = odm.ODRecord(f"map{mp:x}", mp)
                subs = range(0, odd["nmap"] + 1)
            for s in subs:
                m = odm.ODVariable(f"e{s}", mp, s)
                m.data_type = dts[8 if s == 0 else 32]
                arr.add_member(m)
            od.add_object(arr)
    for i, s, value, default in (vals or []):
        var = od.get_variable(i, s)
        if var is not None:
            var.value, var.default = value, default
    return od


def make_node(c, dev, vals=None):
    import canopen
    from ref.strict_pdo_device import attach

    class Net(canopen.Network):
        def send_message(self, *a, **k):
            pass

    net = Net()
    node = canopen.RemoteNode(c.get("node_id", 5), build_od(c, vals))
    net.add_node(node)
    if dev is not None:
        attach(node, dev)
    pm = (node.tpdo if c["tpdo"] else node.rpdo)[c["n"]]
    return net, node, pm


def make_dev(c):
    from ref.strict_pdo_device import StrictPdoDevice
    return StrictPdoDevice({(i, s): v for i, s, v in c["regs"]}, [tuple(o) for o in c["dev"]["objs"]], c["dev"]["mode"])


def obs_cfg(net, pm):
    cbs = net.subscribers.get(pm.cob_id, []) if pm.cob_id is not None else []
    return [pm.cob_id, pm.enabled, pm.rtr_allowed, pm.trans_type, pm.inhibit_time, pm.event_timer,
            pm.sync_start_value, [[v.index, v.subindex, v.length] for v in pm.map], pm.on_message in cbs]


def obs_regs(dev, c):
    com, mp = com_map_index(c["tpdo"], c["n"])
    return [dev.regs.get((com, k)) for k in (1, 2, 3, 5, 6)] + [dev.regs.get((mp, k)) for k in range(9)]


def save_and_readback(c, dev, net, pm):
    def do_save():
        pm.save()
        return obs_cfg(net, pm)
    sres = guarded(do_save)
    log = [[i, s, v, a] for i, s, v, a in dev.log]
    regs = obs_regs(dev, c)

    def do_read():
        net2, node2, pm2 = make_node(c, dev)
        pm2.read()
        return obs_cfg(net2, pm2)
    return [sres, log, regs, guarded(do_read)]


def _layout(pm):
    return [len(pm.data), pm.length, [v.offset for v in pm.map]]


def run_history(c):
    """several node objects on one or more Network objects (all start on network 0), each behind its own device;
    per operation: [outcome, device log of the operation (or True for a read), attributes, layout, subscription
    tables of all networks]"""
    import canopen
    from canopen.pdo.base import PdoMap
    from ref.strict_pdo_device import StrictPdoDevice, attach

    class Net(canopen.Network):
        def send_message(self, *a, **k):
            pass

    nets = [Net() for _ in range(c.get("nnets", 1))]
    numbers = c["od"]["numbers"]
    odc = dict(c, n=numbers[0], od=dict(c["od"], others=numbers[1:]))
    nodes, devs, cur = [], [], []
    for nd in c["nodes"]:
        node = canopen.RemoteNode(nd["id"], build_od(odc))
        nets[0].add_node(node)
        dev = StrictPdoDevice({(i, s): v for i, s, v in nd["regs"]}, [tuple(o) for o in c["dev"]["objs"]], c["dev"]["mode"])
        attach(node, dev)
        nodes.append(node)
        devs.append(dev)
        cur.append(0)
    maps = [(nodes[ni].tpdo if tp else nodes[ni].rpdo)[n] for ni, tp, n in c["keys"]]

    def table():
        rows = [[sorted(cid for cid, cbs in net.subscribers.items() if pm.on_message in cbs) for net in nets] for pm in maps]
        infra = [sum(1 for cbs in net.subscribers.values() for cb in cbs
                     if not isinstance(getattr(cb, "__self__", None), PdoMap)) for net in nets]
        return rows + [infra]

    out = []
    for op in c["ops"]:
        kind = op[0]
        if kind == "reset":
            devs[op[1]].reset({(i, s): v for i, s, v in op[2]})
            out.append([None, [], None, None, table()])
            continue
        if kind == "move":          # the node object leaves its network and is added to network op[2]
            node = nodes[op[1]]
            del nets[cur[op[1]]][node.id]
            nets[op[2]].add_node(node)
            cur[op[1]] = op[2]
            out.append([None, [], None, None, table()])
            continue
        pm = maps[op[1]]
        ni = c["keys"][op[1]][0]
        dev, net = devs[ni], nets[cur[ni]]
        if kind == "set":
            u = op[2]
            pm.cob_id, pm.enabled, pm.rtr_allowed, pm.trans_type = u["cob"], bool(u["enabled"]), bool(u["rtr"]), u["tt"]
            pm.inhibit_time, pm.event_timer, pm.sync_start_value = u["inhibit"], u["event"], u["sync"]
            res, second = None, []
        elif kind == "map":
            pm.clear()
            for i, s, l in op[2]:
                pm.add_variable(i, s, l)
            res, second = None, []
        elif kind == "unsub":       # the application stops listening: Network.unsubscribe(cob_id, callback)
            if pm.cob_id is not None and pm.on_message in net.subscribers.get(pm.cob_id, []):
                net.unsubscribe(pm.cob_id, pm.on_message)
            res, second = None, []
        elif kind == "save":
            start = dev.begin_op(fail_download_at=op[2])
            res = guarded(pm.save)
            second = [[i, s, v, a] for i, s, v, a in dev.log[start:]]
        elif kind == "read":
            dev.begin_op(fail_upload_reg=(op[2], op[3]) if (op[2], op[3]) != (0, 0) else None)
            res = guarded(pm.read)
            second = True
        else:
            raise ValueError(kind)
        dev.begin_op()
        out.append([res, second, obs_cfg(net, pm), _layout(pm), table()])
    return out


def impl(c):
    logging.disable(logging.CRITICAL)
    k = c["kind"]
    if k == "save_read":
        def f():
            dev = make_dev(c)
            net, node, pm = make_node(c, dev)
            u = c["cfg"]
            pm.cob_id, pm.enabled, pm.rtr_allowed, pm.trans_type = u["cob"], bool(u["enabled"]), bool(u["rtr"]), u["tt"]
            pm.inhibit_time, pm.event_timer, pm.sync_start_value = u["inhibit"], u["event"], u["sync"]
            pm.clear()
            for i, s, l in c["adds"]:
                pm.add_variable(i, s, l)
            return save_and_readback(c, dev, net, pm)
        return guarded(f)
    if k == "read":
        def f():
            dev = make_dev(c)
            net, node, pm = make_node(c, dev)
            pm.read()
            return obs_cfg(net, pm)
        return guarded(f)
    if k == "from_od":
        def f():
            dev = make_dev(c)
            net, node, pm = make_node(c, dev, c["vals"])
            pm.read(from_od=True)
            first = obs_cfg(net, pm)
            return [first, save_and_readback(c, dev, net, pm)]
        return guarded(f)
    if k == "history":
        return guarded(run_history, c)
    if k == "load":
        def f():
            dev = make_dev(c)
            net, node, pm = make_node(dict(c, tpdo=0), dev, c["vals"])

            def run():
                node.load_configuration()
            res = guarded(run)
            if isinstance(res, (Err, Abort)) and not dev.log:
                return res
            return [res, [[i, s, v, a] for i, s, v, a in dev.log], obs_regs(dev, dict(c, tpdo=0)), obs_regs(dev, dict(c, tpdo=1))]
        return guarded(f)
    if k == "indices":
        def f():
            net, node, pm = make_node(dict(c, od=dict(com=[1, 2], nmap=1, objs=[], devinfo=c.get("devinfo"))), None)
            return [pm.com_record.od.index, pm.map_array.od.index, pm.predefined_cob_id]
        return guarded(f)
    raise ValueError(k)


# ------------------------------------------------------------------ oracle (CiA 301 arithmetic + the strict device's verdicts)
def od_bits(odd, i, s):
    """bit size of the dictionary object a mapping (i, s) refers to, None if the dictionary has none"""
    for o in odd["objs"]:
        if o[0] == i:
            if o[1] == "var":
                return o[2]
            for ss, b in o[2]:
                if ss == s:
                    return b
            return None
    return None


def od_nmap(odd):
    return 255 if odd.get("array") else odd["nmap"]


def entry_wf(e):
    i, s, l = e
    return 0 < i < 65536 and 0 <= s < 256 and 0 < l < 128


def save_hypotheses(c, u, mapping):
    """the hypotheses under which the property makes its demands on save() (None = not met)"""
    com, mp = com_map_index(c["tpdo"], c["n"])
    odd, dev = c["od"], c["dev"]
    regs0 = {(i, s): v for i, s, v in c["regs"]}
    mode = dev["mode"]
    if mode == 1:
        return None      # read-only count workaround: outside the property (model tie only)
    cob = u["cob"]
    if cob is None or not 0 <= cob < (1 << 29):
        return None
    written = [(com, 1)]
    if 1 not in odd["com"]:
        return None
    for key, (sub, lim) in LIMITS.items():
        if u[key] is not None:
            if not 0 <= u[key] < lim or sub not in odd["com"]:
                return None
            written.append((com, sub))
    if not all(entry_wf(e) for e in mapping) or len(mapping) > od_nmap(odd) or len(mapping) > 255:
        return None
    written += [(mp, k) for k in range(0, len(mapping) + 1)]
    if any(k not in regs0 for k in written):
        return None
    if mode == 0:
        dobjs = {(i, s): b for i, s, b in dev["objs"]}
        if any(dobjs.get((i, s)) is None or l > dobjs[(i, s)] for i, s, l in mapping):
            return None
        if sum(l for _, _, l in mapping) > 64:
            return None
    return True


LIMITS = {"tt": (2, 256), "inhibit": (3, 65536), "event": (5, 65536), "sync": (6, 256)}


def expect_after_save(c, u, mapping, sobs, what):
    """u: the configuration (dict), mapping: list of (i, s, l) the map holds, sobs = [save result, device log,
    registers, read-back]; a save result whose subscription flag is None and a read-back None are not checked
    (load_configuration).  Returns failure or None.  Demands are made only under the stated hypotheses."""
    if not save_hypotheses(c, u, mapping):
        return None
    com, mp = com_map_index(c["tpdo"], c["n"])
    odd = c["od"]
    regs0 = {(i, s): v for i, s, v in c["regs"]}
    cob = u["cob"]
    limits = LIMITS
    # ---- the hypotheses hold: the property demands
    STATS[what + 'save_demanded'] += 1
    sres, log, regs, rb = sobs
    if isinstance(sres, (Err, Abort)):
        return (what + "save_failed", f"save() raised {sres!r}; device log {log}")
    refused = [w for w in log if w[3] is not None]
    if refused:
        return (what + "write_refused", f"device refused {refused[0]} (log {log})")
    if not log or log[0][:2] != [com, 1] or not (log[0][2] >> 31) & 1:
        return (what + "not_invalidated_first", f"first write is {log[0] if log else None}")
    invalid, count = None, None
    for pos, (i, s, v, a) in enumerate(log):
        if i not in (com, mp):
            return (what + "foreign_write", f"write to {i:#x}:{s} (log {log})")
        if i == com and s == 1:
            invalid = bool((v >> 31) & 1)
            if not invalid and (pos != len(log) - 1 or not u["enabled"]):
                return (what + "validated_early", f"bit 31 cleared by write {pos} of {len(log)} (enabled={u['enabled']}); log {log}")
        else:
            if not invalid:
                return (what + "write_while_valid", f"write {pos} {i:#x}:{s} while the PDO is valid; log {log}")
            if i == mp and s == 0:
                count = v
            elif i == mp and count != 0:
                return (what + "entry_before_count_zero", f"entry write {pos} {i:#x}:{s} while count is {count}; log {log}")
    if u["enabled"] and invalid:
        return (what + "not_validated", f"enabled PDO left invalid; log {log}")
    exp = {(com, 1): cob | (0 if u["enabled"] else NV) | (0 if u["rtr"] else RTR), (mp, 0): len(mapping)}
    for key, (sub, lim) in limits.items():
        if u[key] is not None:
            exp[(com, sub)] = u[key]
    for k, (i, s, l) in enumerate(mapping):
        exp[(mp, k + 1)] = i << 16 | s << 8 | l
    got = dict(zip([(com, k) for k in (1, 2, 3, 5, 6)] + [(mp, k) for k in range(9)], regs))
    for key, v in exp.items():
        if key in got and got[key] != v:
            return (what + "register_wrong", f"register {key[0]:#x}:{key[1]} is {got[key]!r}, CiA 301 encoding is {v:#x}")
    if sres[8] is not None and sres[8] != bool(u["enabled"]):
        return (what + "subscription_after_save", f"enabled={u['enabled']} subscribed={sres[8]}")
    # ---- read back by a fresh node
    if rb is None:
        return None
    if 2 not in odd["com"] or u["tt"] is None or (com, 2) not in regs0:
        return None
    if any(od_bits(odd, i, s) is None for i, s, l in mapping):
        return None
    STATS[what + 'readback_demanded'] += 1
    if isinstance(rb, (Err, Abort)):
        return (what + "readback_failed", f"read() raised {rb!r}")
    want = [cob, bool(u["enabled"]), bool(u["rtr"]), u["tt"]]
    if rb[:4] != want:
        return (what + "readback_params", f"read back {rb[:4]}, saved {want}")
    if rb[7] != [list(e) for e in mapping]:
        return (what + "readback_mapping", f"read back {rb[7]}, saved {[list(e) for e in mapping]}")
    if u["tt"] >= 254:
        for pos, key in ((4, "inhibit"), (5, "event"), (6, "sync")):
            if u[key] is not None and rb[pos] != u[key]:
                return (what + "readback_timer", f"{key}: read back {rb[pos]!r}, saved {u[key]}")
    if rb[8] != bool(u["enabled"]):
        return (what + "subscription_after_read", f"enabled={u['enabled']} subscribed={rb[8]}")
    return None


def decode_source(c, get):
    """CiA 301 decoding of a register image; None unless it is the image of a well-formed configuration
    whose mapped objects the dictionary knows (then read() must return exactly this)."""
    com, mp = com_map_index(c["tpdo"], c["n"])
    odd = c["od"]
    if 1 not in odd["com"] or 2 not in odd["com"]:
        return None
    w1, tt, n = get(com, 1), get(com, 2), get(mp, 0)
    if w1 is None or tt is None or n is None or not 0 <= w1 < (1 << 32) or (w1 >> 29) & 1 or not 0 <= tt < 256:
        return None
    if not 0 <= n <= od_nmap(odd) or n > 255:
        return None
    mapping = []
    for k in range(1, n + 1):
        w = get(mp, k)
        if w is None or not 0 <= w < (1 << 32):
            return None
        e = (w >> 16, (w >> 8) & 0xFF, w & 0xFF)
        if not entry_wf(e) or od_bits(odd, e[0], e[1]) is None:
            return None
        mapping.append(e)
    u = dict(cob=w1 & 0x1FFFFFFF, enabled=not (w1 >> 31) & 1, rtr=not (w1 >> 30) & 1, tt=tt,
             inhibit=None, event=None, sync=None)
    if tt >= 254:
        for key, sub, lim in (("inhibit", 3, 65536), ("event", 5, 65536), ("sync", 6, 256)):
            if sub in odd["com"]:
                v = get(com, sub)
                if v is not None and not 0 <= v < lim:
                    return None
                u[key] = v
    return u, mapping


def check_read(u, mapping, o, what):
    STATS[what + 'read_demanded'] += 1
    if isinstance(o, (Err, Abort)):
        return (what + "read_failed", f"read() raised {o!r}")
    want = [u["cob"], u["enabled"], u["rtr"], u["tt"], u["inhibit"], u["event"], u["sync"], [list(e) for e in mapping],
            u["enabled"]]
    if o != want:
        return (what + "read_wrong", f"read gives {o}, CiA 301 decoding is {want}")
    return None


def layout_failure(cfgobs, layout, what):
    """after every operation, failed or not: length = sum of the mapped lengths, offsets = prefix sums, and a map
    with mapped bits sits on a frame of ceil(bits / 8) bytes"""
    dlen, length, offs = layout
    lens = [e[2] for e in cfgobs[7]]
    if len(offs) != len(lens) or length != sum(lens):
        return f"{what}: PdoMap.length {length}, mapped lengths {lens}, offsets {offs}"
    pos = 0
    for o, l in zip(offs, lens):
        if o is None and l == 0:
            continue                # dummy entry of the fixed-count workaround
        if o != pos:
            return f"{what}: offsets {offs} are not the prefix sums of {lens}"
        pos += l
    if length > 0 and dlen != (length + 7) // 8:
        return f"{what}: frame of {dlen} bytes for {length} mapped bits (offsets {offs}, lengths {lens})"
    return None


def history_oracle(c, o):
    if isinstance(o, (Err, Abort)):
        return ("pdo_map_unavailable", f"the maps of the history cannot be used: {o!r}")
    odd = dict(c["od"])
    keys = c["keys"]
    sim = [{(i, s): v for i, s, v in nd["regs"]} for nd in c["nodes"]]     # the oracle's own register files
    known = [dict(u=None, mapping=None) for _ in keys]                      # what each map object should hold
    # callbacks that are not PDO maps (SDO, heartbeat, EMCY, NMT, LSS): whatever is there must stay
    nnets = c.get("nnets", 1)
    prev_table = [[[] for _ in range(nnets)] for _ in keys] + [o[0][4][-1] if o else []]
    cur = [0] * len(c["nodes"])          # the network each node object is attached to
    for pos, (op, ob) in enumerate(zip(c["ops"], o)):
        res, second, cfgobs, layout, tab = ob
        what = f"operation {pos} {op[:2] if op[0] not in ('reset', 'move') else op[:3] if op[0] == 'move' else 'reset'} of {[x[0] for x in c['ops']]}"
        kind = op[0]
        touched = None if kind in ("reset", "move") else op[1]
        # ---- the subscription tables of all networks
        if kind == "move":
            # nothing is demanded of the maps of the node that moves (remove_network may or may not clean up); every
            # other node's maps keep their subscriptions
            for ki in range(len(keys)):
                if keys[ki][0] != op[1] and tab[ki] != prev_table[ki]:
                    return ("subscription_of_other_map_changed",
                            f"{what}: map {keys[ki]} was subscribed to {prev_table[ki]}, now {tab[ki]}")
            cur[op[1]] = op[2]
            prev_table = tab
            continue
        if tab[-1] != prev_table[-1]:
            return ("foreign_subscription_changed", f"{what}: {prev_table[-1]} -> {tab[-1]} callbacks that are not PDO maps")
        for ki in range(len(keys)):
            if ki != touched and tab[ki] != prev_table[ki]:
                return ("subscription_of_other_map_changed",
                        f"{what}: map {keys[ki]} was subscribed to {prev_table[ki]}, now {tab[ki]}")
        if touched is not None:
            here = cur[keys[touched][0]]
            for j in range(nnets):
                if j != here and tab[touched][j] != prev_table[touched][j]:
                    return ("subscription_on_other_network_changed",
                            f"{what}: map {keys[touched]} on network {j}: {prev_table[touched][j]} -> {tab[touched][j]} (node is on network {here})")
            row, old = tab[touched][here], prev_table[touched][here]
            new = set(row) - set(old)
            ok_new = set()
            if kind in ("save", "read") and res is None and cfgobs[1] and cfgobs[0] is not None:
                ok_new = {cfgobs[0]}
                if cfgobs[0] not in row:
                    return ("enabled_map_not_subscribed",
                            f"{what}: enabled map {keys[touched]} COB-ID {cfgobs[0]:#x} is subscribed to {row} on the "
                            f"network its node is attached to (network {here}); all networks: {tab[touched]}")
            if new - ok_new:
                return ("unexpected_subscription", f"{what}: map {keys[touched]} newly subscribed to {sorted(new)}, attributes {cfgobs[:2]}")
        prev_table = tab
        if kind == "reset":
            sim[op[1]] = {(i, s): v for i, s, v in op[2]}
            continue
        ni, tp, n = keys[touched]
        com, mp = com_map_index(tp, n)
        # ---- layout of the map object
        f = layout_failure(cfgobs, layout, what)
        if f:
            return ("map_layout_inconsistent_after_failure", f)
        k = known[touched]
        if kind == "set":
            k["u"] = dict(op[2])
            continue
        if kind == "unsub":
            continue
        if kind == "map":
            k["mapping"] = [(i, s, od_bits(odd, i, s) if l is None else l) for i, s, l in op[2] if od_bits(odd, i, s) is not None]
            continue
        pc = dict(tpdo=tp, n=n, od=odd, dev=c["dev"], regs=[[i, s, v] for (i, s), v in sim[ni].items()])
        if kind == "save":
            before = dict(sim[ni])
            for i, s, v, a in second:
                if a is None:
                    sim[ni][(i, s)] = v
            if op[2] == 0 and k["u"] is not None and k["mapping"] is not None:
                # no fault injected: every call of save() does the whole job, whatever happened before
                regs = [sim[ni].get((com, x)) for x in (1, 2, 3, 5, 6)] + [sim[ni].get((mp, x)) for x in range(9)]
                sres = res if isinstance(res, (Err, Abort)) else [None] * 9
                f = expect_after_save(pc, k["u"], k["mapping"], [sres, second, regs, None], "history_")
                if f:
                    return (f[0], f"{what}: {f[1]}")
            if any(i == mp and s == 0 and v == 0 and a is not None for i, s, v, a in second):
                k["mapping"] = None       # count := 0 refused: the fixed-count workaround may have filled the map
            continue
        if kind == "read":
            d = decode_source(pc, lambda i, s: sim[ni].get((i, s))) if (op[2], op[3]) == (0, 0) else None
            if d is not None:
                # timers: read only for 254/255, otherwise the object keeps what it had
                want_u, want_map = d
                if isinstance(res, (Err, Abort)):
                    return ("history_read_failed", f"{what}: read() raised {res!r}")
                got = cfgobs[:4] + [cfgobs[7]]
                exp = [want_u["cob"], want_u["enabled"], want_u["rtr"], want_u["tt"], [list(e) for e in want_map]]
                if got != exp:
                    return ("history_read_wrong", f"{what}: read gives {got}, CiA 301 decoding is {exp}")
                if want_u["tt"] >= 254 and cfgobs[4:7] != [want_u["inhibit"], want_u["event"], want_u["sync"]]:
                    # a timer register that exists must be read; a missing one keeps the old value (not checked)
                    for x, key in zip(cfgobs[4:7], ("inhibit", "event", "sync")):
                        if want_u[key] is not None and x != want_u[key]:
                            return ("history_read_wrong", f"{what}: {key} read as {x}, register holds {want_u[key]}")
            if res is None:
                k["u"] = dict(cob=cfgobs[0], enabled=cfgobs[1], rtr=cfgobs[2], tt=cfgobs[3], inhibit=cfgobs[4],
                              event=cfgobs[5], sync=cfgobs[6]) if d is not None else None
                k["mapping"] = [tuple(e) for e in cfgobs[7]] if d is not None else None
            else:
                k["u"], k["mapping"] = None, None
    return None


def oracle(c, o):
    k = c["kind"]
    if k == "history":
        return history_oracle(c, o)
    if k == "indices":
        com, mp = com_map_index(c["tpdo"], c["n"])
        if isinstance(o, (Err, Abort)) or o[:2] != [com, mp]:
            return ("pdo_indices", f"PDO {c['n']} ({'T' if c['tpdo'] else 'R'}): {o!r}, CiA 301 objects are {com:#x}/{mp:#x}")
        return None
    if k == "save_read":
        if isinstance(o, (Err, Abort)):
            return ("pdo_map_unavailable", f"PDO {c['n']} ({'T' if c['tpdo'] else 'R'}) of the node cannot be used: {o!r}")
        u = c["cfg"]
        mapping = []
        for i, s, l in c["adds"]:
            b = od_bits(c["od"], i, s)
            if b is not None:
                mapping.append((i, s, b if l is None else l))
        return expect_after_save(c, u, mapping, o, "")
    if k == "read":
        regs = {(i, s): v for i, s, v in c["regs"]}
        d = decode_source(c, lambda i, s: regs.get((i, s)))
        if d is None:
            return None
        # a timer the device does not have stays None
        return check_read(d[0], d[1], o, "")
    if k == "from_od":
        vals = {(i, s): (v if v is not None else dflt) for i, s, v, dflt in c["vals"]}
        d = decode_source(c, lambda i, s: vals.get((i, s)))
        if d is None:
            return None
        if isinstance(o, (Err, Abort)):
            return ("from_od_read_failed", f"read(from_od=True) raised {o!r}")
        f = check_read(d[0], d[1], o[0], "from_od_")
        if f:
            return f
        return expect_after_save(c, d[0], d[1], o[1], "from_od_")
    if k == "load":
        vals = {(i, s): (v if v is not None else dflt) for i, s, v, dflt in c["vals"]}
        cr, ct = dict(c, tpdo=0), dict(c, tpdo=1)
        dr = decode_source(cr, lambda i, s: vals.get((i, s)))
        dt = decode_source(ct, lambda i, s: vals.get((i, s)))
        if dr is None or dt is None or not save_hypotheses(cr, dr[0], dr[1]):
            return None
        if isinstance(o, (Err, Abort)):
            return ("load_failed", f"load_configuration raised {o!r} before any write")
        res, log, regs_r, regs_t = o
        tidx = com_map_index(1, c["n"])
        ridx = com_map_index(0, c["n"])
        log_r = [w for w in log if w[0] in ridx]
        log_t = [w for w in log if w[0] in tidx]
        foreign = [w for w in log if w[0] not in ridx + tidx]
        if foreign:
            return ("load_foreign_write", f"write {foreign[0]}")
        ok = [None] * 9
        res_r = ok if (res is None or log_t) else res
        f = expect_after_save(cr, dr[0], dr[1], [res_r, log_r, regs_r, None], "load_rpdo_")
        if f:
            return f
        if not save_hypotheses(ct, dt[0], dt[1]):
            return None
        if log_t and log.index(log_t[0]) < log.index(log_r[-1]):
            return ("load_interleaved", f"log {log}")
        return expect_after_save(ct, dt[0], dt[1], [ok if res is None else res, log_t, regs_t, None], "load_tpdo_")
    return None


# ------------------------------------------------------------------ Gallina printing
def g3(t, f=gz):
    return f"({gz(t[0])}, {gz(t[1])}, {f(t[2])})"


def g_od(odd):
    objs = []
    for o in odd["objs"]:
        if o[1] == "var":
            objs.append(f"({gz(o[0])}, OVar {gz(o[2])})")
        else:
            objs.append(f"({gz(o[0])}, ORec {glist([f'({gz(s)}, {gz(b)})' for s, b in o[2]])})")
    return f"(mkOd {glist([gz(x) for x in odd['com']])} {gz(od_nmap(odd))} {glist(objs)})"


def g_dev(d):
    return f"(mkDev {glist([g3(o) for o in d['objs']])} {gz(d['mode'])})"


def g_regs(regs):
    return glist([f"(({gz(i)}, {gz(s)}), {gz(v)})" for i, s, v in regs])


def g_cfg(u):
    return (f"(mkCfg {gopt(u['cob'])} {gbool(u['enabled'])} {gbool(u['rtr'])} {gopt(u['tt'])} {gopt(u['inhibit'])} "
            f"{gopt(u['event'])} {gopt(u['sync'])} [])")


def coq_case(c):
    k = c["kind"]
    head = f"{gbool(c.get('tpdo', 0))} {gz(c.get('n', 0))}"
    if k == "save_read":
        adds = glist([g3(a, gopt) for a in c["adds"]])
        return f"CSaveRead {head} {g_od(c['od'])} {g_dev(c['dev'])} {g_regs(c['regs'])} {g_cfg(c['cfg'])} {adds}"
    if k == "read":
        return f"CRead {head} {g_od(c['od'])} {g_regs(c['regs'])}"
    if k == "from_od":
        vals = glist([f"(({gz(i)}, {gz(s)}), ({gopt(v)}, {gopt(d)}))" for i, s, v, d in c["vals"]])
        return f"CFromOd {head} {g_od(c['od'])} {vals} {g_dev(c['dev'])} {g_regs(c['regs'])}"
    if k == "indices":
        return f"CIndices {head} {gz(c['node_id'])}"
    if k == "history":
        gk = lambda key: f"({gz(key[0])}, {gbool(key[1])}, {gz(key[2])})"
        ops = []
        for op in c["ops"]:
            if op[0] == "set": ops.append(f"HSet {gk(c['keys'][op[1]])} {g_cfg(op[2])}")
            elif op[0] == "map": ops.append(f"HMap {gk(c['keys'][op[1]])} {glist([g3(a, gopt) for a in op[2]])}")
            elif op[0] == "save": ops.append(f"HSave {gk(c['keys'][op[1]])} {gz(op[2])}")
            elif op[0] == "read": ops.append(f"HRead {gk(c['keys'][op[1]])} {gz(op[2])} {gz(op[3])}")
            elif op[0] == "reset": ops.append(f"HReset {gz(op[1])} {g_regs(op[2])}")
            elif op[0] == "move": ops.append(f"HMove {gz(op[1])} {gz(op[2])}")
            elif op[0] == "unsub": ops.append(f"HUnsub {gk(c['keys'][op[1]])}")
            else: raise ValueError(op[0])
        return (f"CHistory {g_od(c['od'])} {g_dev(c['dev'])} {gz(c.get('nnets', 1))} {glist([gk(k) for k in c['keys']])} "
                f"{glist([g_regs(nd['regs']) for nd in c['nodes']])} {glist(ops)}")
    if k == "load":
        vals = glist([f"(({gz(i)}, {gz(s)}), ({gopt(v)}, {gopt(d)}))" for i, s, v, d in c["vals"]])
        return f"CLoad {gz(c['n'])} {g_od(c['od'])} {vals} {g_dev(c['dev'])} {g_regs(c['regs'])}"
    raise ValueError(k)


def nontrivial(c):
    k = c["kind"]
    if k == "history":
        return any(op[0] in ("save", "read") for op in c["ops"])
    if k == "load":
        return any(s == 0 and (v or d) and 0x1600 <= i < 0x1C00 for i, s, v, d in c["vals"])
    com, mp = com_map_index(c["tpdo"], c["n"])
    if k == "save_read":
        valid0 = any(i == com and s == 1 and not (v >> 31) & 1 for i, s, v in c["regs"])
        return bool(c["adds"]) or valid0
    if k in ("read", "from_od"):
        src = c["regs"] if k == "read" else [(i, s, v if v is not None else d) for i, s, v, d in c["vals"]]
        return any(i == mp and s == 0 and v for i, s, v in src)
    return k == "indices"


# ------------------------------------------------------------------ generators
OBJ_POOL = [[0x2000, "var", 8], [0x2001, "var", 16], [0x2002, "var", 32], [0x2003, "var", 8], [0x2004, "var", 8],
            [0x2005, "var", 16], [0x2006, "var", 64], [0x2007, "var", 32], [0x0001, "var", 8], [0xFFFF, "var", 16],
            [0x2100, "rec", [[0, 8], [1, 8], [2, 16], [3, 32], [255, 8]]], [0x6041, "rec", [[0, 8], [1, 16]]]]


def flat_objs(objs):
    out = []
    for o in objs:
        if o[1] == "var":
            out.append([o[0], 0, o[2]])
        else:
            out += [[o[0], s, b] for s, b in o[2]]
    return out


def gen_od(rng):
    com = rng.choice([[1, 2, 3, 5, 6]] * 6 + [[1, 2], [1, 2, 3], [1, 2, 3, 5], [1, 2, 5, 6], [1, 2, 3, 4, 5, 6], [1, 2, 6]])
    objs = [o for o in OBJ_POOL if rng.random() < 0.93]
    odd = dict(com=com, nmap=rng.choice([8] * 8 + [0, 1, 2, 4, 12, 64]), objs=objs)
    if rng.random() < 0.08:
        odd["array"] = True
        odd["nmap"] = 1
    if rng.random() < 0.5:
        odd["devinfo"] = True
    return odd


def gen_cob(rng):
    return rng.choice([rng.randrange(1, 0x800), rng.randrange(0x800, 1 << 29), rng.randrange(0x181, 0x600),
                       0x7FF, 0x800, 0x1FFFFFFF, 1, 0, 0x585, 0x10000000, 0x0FFFFFFF, (1 << 28) | rng.randrange(0x800)])


def gen_word(rng, objs, maxlen=None):
    i, s, b = rng.choice(objs)
    l = b if rng.random() < 0.7 else rng.randint(1, b)
    return i << 16 | s << 8 | l


def gen_regs(rng, c, odd, dobjs, ndev=None, others=(), both=False):
    """prior device state for PDO n (and for the other PDO numbers listed): any flags, any parameters, often enabled
    with a different mapping"""
    regs = []
    for tp in (0, 1):
        for n in [c["n"]] + list(others):
            if not both and tp != c["tpdo"] and n == c["n"] and rng.random() < 0.5:
                continue
            com, mp = com_map_index(tp, n)
            flags = rng.choice([NV, 0, 0, RTR, NV | RTR])
            regs.append([com, 1, flags | rng.choice([rng.randrange(1, 0x800), rng.randrange(1 << 29), 0x185 + n])])
            for s in odd["com"]:
                if s != 1 and rng.random() < 0.97:
                    regs.append([com, s, rng.randrange(1 << COM_BITS.get(s, 8))])
            nm = ndev if ndev is not None else min(od_nmap(odd), 16)
            cnt = rng.randint(0, min(nm, 3))
            regs.append([mp, 0, cnt])
            for k in range(1, nm + 1):
                if k <= cnt and dobjs:
                    regs.append([mp, k, gen_word(rng, dobjs)])
                else:
                    regs.append([mp, k, rng.choice([0, 0, gen_word(rng, dobjs) if dobjs else 0, rng.randrange(1 << 32)])])
    return regs


def gen_save_read(rng, shape="normal"):
    tpdo = rng.randrange(2)
    n = rng.choice([1, 2, 3, 4, 5, 512, 512, rng.randint(1, 512)])
    odd = gen_od(rng)
    mode = rng.choice([0] * 15 + [1, 1] + [2] * 3)
    if shape == "valid":          # all hypotheses of the strict-device theorem
        mode = 0
        odd = dict(com=rng.choice([[1, 2, 3, 5, 6]] * 3 + [[1, 2], [1, 2, 3], [1, 2, 5, 6]]), nmap=rng.choice([8, 8, 8, 4, 16]),
                   objs=list(OBJ_POOL))
        if rng.random() < 0.5:
            odd["devinfo"] = True
    dobjs = flat_objs(odd["objs"])
    if shape != "valid" and rng.random() < 0.15:
        dobjs = [o for o in dobjs if rng.random() < 0.8]
    c = dict(kind="save_read", tpdo=tpdo, n=n, node_id=rng.randint(1, 127), od=odd,
             dev=dict(objs=dobjs, mode=mode))
    if rng.random() < 0.3:
        odd["others"] = [rng.choice([1, 2, 512, rng.randint(1, 512)])]
    ndev = None
    if shape != "valid" and rng.random() < 0.1:
        ndev = rng.choice([0, 2, 4, 8])
    c["regs"] = gen_regs(rng, c, odd, dobjs, ndev, [x for x in odd.get("others", []) if x != n])
    # configuration
    u = dict(cob=gen_cob(rng), enabled=rng.random() < 0.6, rtr=rng.random() < 0.5,
             tt=rng.choice([0, 1, 240, 241, 252, 253, 254, 254, 255, 255, rng.randrange(256)]),
             inhibit=None, event=None, sync=None)
    for key, sub, lim in (("inhibit", 3, 65536), ("event", 5, 65536), ("sync", 6, 256)):
        if rng.random() < 0.6 and (sub in odd["com"] or (shape != "valid" and rng.random() < 0.05)):
            u[key] = rng.choice([rng.randrange(lim), 0, lim - 1, 1])
    if shape != "valid":
        r = rng.random()
        if r < 0.03: u["cob"] = None
        elif r < 0.06: u["cob"] = rng.choice([1 << 29, (1 << 29) | 0x123, (1 << 32) - 1, 1 << 32, -1, (1 << 31) | 5])
        elif r < 0.09: u["tt"] = rng.choice([None, 256, -1])
        elif r < 0.11: u[rng.choice(["inhibit", "event"])] = rng.choice([65536, -1])
    c["cfg"] = u
    # mapping
    adds, total = [], 0
    pool = flat_objs(odd["objs"]) or [[0x2000, 0, 8]]
    limit = 64 if (mode == 0 or shape == "valid") and rng.random() < 0.93 else 200
    kmax = rng.choice([0, 1, 2, 3, 4, 5, 6, 7, 8, 8])
    if shape != "valid" and rng.random() < 0.04:
        kmax = od_nmap(odd) + 1 if od_nmap(odd) < 20 else 9
    for _ in range(kmax):
        i, s, b = rng.choice(pool)
        r = rng.random()
        if r < 0.55: l = b
        elif r < 0.7: l = None
        elif r < 0.9: l = rng.randint(1, b)
        else: l = rng.choice([1, 7, 8, 63, 64]) if b >= 64 else rng.randint(1, b)
        if shape != "valid" and mode == 2 and rng.random() < 0.3:
            l = rng.choice([65, 100, 127, 128, 255, 0, 64])
        ll = b if l is None else l
        if total + ll > limit:
            continue
        total += ll
        adds.append([i, s, l])
    if shape != "valid":
        r = rng.random()
        if r < 0.05: adds.insert(rng.randint(0, len(adds)), [rng.choice([0x3000, 0x2100, 0x2000]), rng.choice([0, 1, 7]), 8])
        elif r < 0.08: adds.append([0x2002, 0, rng.choice([0, 128, 256, 300])])
    c["adds"] = adds
    return c


def gen_read(rng):
    odd = gen_od(rng)
    c = dict(kind="read", tpdo=rng.randrange(2), n=rng.choice([1, 2, 4, 5, 512, rng.randint(1, 512)]),
             node_id=rng.randint(1, 127), od=odd, dev=dict(objs=[], mode=2))
    image = rng.random() < 0.6        # the register image of a well-formed configuration
    dobjs = flat_objs(odd["objs"] if image and odd["objs"] else OBJ_POOL)
    com, mp = com_map_index(c["tpdo"], c["n"])
    nm = min(od_nmap(odd), 10)
    flags = rng.choice([0, NV, RTR, NV | RTR] if image else [0, NV, RTR, NV | RTR, 1 << 29, rng.randrange(1 << 32)])
    regs = [[com, 1, (flags | gen_cob(rng)) & 0xFFFFFFFF],
            [com, 2, rng.choice([0, 253, 254, 254, 255, 255, rng.randrange(256)])]]
    for s in (3, 5, 6):
        if rng.random() < 0.8:
            regs.append([com, s, rng.randrange(1 << COM_BITS[s])])
    cnt = rng.randint(0, nm) if image else rng.choice([0, 1, 2, 3, 8, rng.randint(0, nm + 1), rng.randint(0, 12)])
    regs.append([mp, 0, cnt])
    for k in range(1, nm + 1):
        r = rng.random()
        if r < (0.85 if image else 0.5):
            w = gen_word(rng, dobjs)
        elif r < (1.0 if image else 0.6):
            i, s, b = rng.choice(dobjs)
            w = i << 16 | s << 8 | rng.choice([1, 7, 63, 64, 65, 100, 127])
        elif r < 0.75:
            i, s, b = rng.choice(dobjs)
            w = i << 16 | s << 8 | rng.choice([0, 128, 129, 200, 255, 0x88])
        elif r < 0.9:
            w = rng.choice([0, 8, 0x20000000, 0x00000108, 0x30000008])
        else:
            w = rng.randrange(1 << 32)
        regs.append([mp, k, w])
    if not image and rng.random() < 0.2:
        regs.pop(rng.randrange(len(regs)))
    c["regs"] = regs
    return c


def gen_od_values(rng, odd, dobjs, tpdo, n):
    """dictionary content (value = DCF, default = EDS) for one PDO: [index, sub, value, default]"""
    com, mp = com_map_index(tpdo, n)

    def vd(x, alt):
        """(value, default) whose pick is x"""
        r = rng.random()
        if r < 0.4: return [x, alt]         # DCF value wins over a different default
        if r < 0.6: return [x, None]
        if r < 0.97: return [None, x]
        return [None, None]
    w1 = rng.choice([0, NV, RTR, NV | RTR]) | gen_cob(rng)
    vals = [[com, 1] + vd(w1, (w1 ^ NV ^ 0x3) & 0xFFFFFFFF)]
    tt = rng.choice([0, 1, 253, 254, 255, rng.randrange(256)])
    vals.append([com, 2] + vd(tt, (tt + 1) % 256))
    for s in (3, 5, 6):
        if s in odd["com"] and rng.random() < 0.8:
            x = rng.randrange(1 << COM_BITS[s])
            vals.append([com, s] + vd(x, x ^ 1))
    nm = min(odd["nmap"], 8)
    total, words = 0, []
    for _ in range(rng.randint(0, nm)):
        if not dobjs: break
        i, s, b = rng.choice(dobjs)
        l = b if rng.random() < 0.7 else rng.randint(1, b)
        if total + l > 64: continue
        total += l
        words.append(i << 16 | s << 8 | l)
    vals.append([mp, 0] + vd(len(words), (len(words) + 1) % (nm + 1)))
    for k, w in enumerate(words):
        vals.append([mp, k + 1] + vd(w, w ^ 0x100 if rng.random() < 0.5 else 0))
    for k in range(len(words) + 1, nm + 1):
        if rng.random() < 0.5:
            vals.append([mp, k, rng.choice([None, 0]), rng.choice([0, None, 0x20000008])])
    return vals


def gen_from_od(rng, kind="from_od"):
    odd = gen_od(rng)
    odd.pop("array", None)
    if odd["nmap"] == 1 and rng.random() < 0.5:
        odd["nmap"] = 8
    c = dict(kind=kind, tpdo=rng.randrange(2), n=rng.choice([1, 2, 3, 4, 512, rng.randint(1, 512)]),
             node_id=rng.randint(1, 127), od=odd)
    dobjs = flat_objs(odd["objs"])
    c["dev"] = dict(objs=dobjs, mode=rng.choice([0, 0, 0, 0, 2]))
    if kind == "load":                 # RemoteNode.load_configuration: RPDO n and TPDO n
        c["tpdo"] = 0
        c["regs"] = gen_regs(rng, c, odd, dobjs, both=True)
        c["vals"] = gen_od_values(rng, odd, dobjs, 0, c["n"]) + gen_od_values(rng, odd, dobjs, 1, c["n"])
        del c["tpdo"]
    else:
        c["regs"] = gen_regs(rng, c, odd, dobjs)
        c["vals"] = gen_od_values(rng, odd, dobjs, c["tpdo"], c["n"])
    return c


def gen_history(rng, tier="quick"):
    """operation histories on one Network: retries after a failed save, saves around a device reset, unchanged /
    changed mappings saved repeatedly, several maps and nodes with colliding COB-IDs that are re-addressed,
    reads that fail midway over a map that held another mapping"""
    numbers = rng.choice([[1], [1, 2], [2], [512], [1, 512]])
    odd = dict(com=rng.choice([[1, 2, 3, 5, 6]] * 4 + [[1, 2], [1, 2, 3]]), nmap=8, objs=list(OBJ_POOL), numbers=numbers)
    if rng.random() < 0.5:
        odd["devinfo"] = True
    dobjs = flat_objs(odd["objs"])
    mode = rng.choice([0] * 8 + [1, 2])
    nn = rng.choice([1, 2, 2, 3])
    ids = rng.sample(range(1, 100), nn)
    c = dict(kind="history", od=odd, dev=dict(objs=dobjs, mode=mode))

    def prior(i):
        pc = dict(tpdo=0, n=numbers[0])
        return gen_regs(rng, pc, odd, dobjs, others=numbers[1:], both=True)
    c["nodes"] = [dict(id=ids[i], regs=prior(i)) for i in range(nn)]
    allkeys = [[ni, tp, n] for ni in range(nn) for tp in (0, 1) for n in numbers]
    rng.shuffle(allkeys)
    keys = allkeys[:rng.choice([1, 2, 2, 3, 3, 4])]
    c["keys"] = keys

    def attrs(cob=None, enabled=None):
        u = dict(cob=gen_cob(rng) if cob is None else cob, enabled=(rng.random() < 0.75) if enabled is None else enabled,
                 rtr=rng.random() < 0.5, tt=rng.choice([0, 1, 253, 254, 255, rng.randrange(256)]),
                 inhibit=None, event=None, sync=None)
        for key, sub, lim in (("inhibit", 3, 65536), ("event", 5, 65536), ("sync", 6, 256)):
            if sub in odd["com"] and rng.random() < 0.4:
                u[key] = rng.randrange(lim)
        return u

    def mapping(maxbits=64):
        adds, total = [], 0
        for _ in range(rng.choice([0, 1, 1, 2, 2, 3, 4, 6, 8])):
            i, s, b = rng.choice(dobjs)
            l = rng.choice([b, b, None, rng.randint(1, b)])
            ll = b if l is None else l
            if total + ll > maxbits:
                continue
            total += ll
            adds.append([i, s, l])
        return adds

    def nwrites(u, adds):
        return 1 + sum(u[k] is not None for k in ("tt", "inhibit", "event", "sync")) + 2 + len(adds) + (1 if u["enabled"] else 0)

    ops = []
    shape = rng.choice(["retry", "retry", "reset", "twice", "collide", "collide", "readfail", "readfail", "random",
                        "move", "move", "move"])
    c["nnets"] = rng.choice([1, 2, 2, 3]) if shape in ("move", "random", "collide") else 1
    if shape in ("retry", "reset", "twice"):
        k = rng.randrange(len(keys))
        u, adds = attrs(), mapping()
        if shape == "retry" and not adds and rng.random() < 0.8:
            adds = [[0x2001, 0, None], [0x2000, 0, None]]
        ops += [["set", k, u], ["map", k, adds]]
        if shape == "retry":
            ops.append(["save", k, rng.randint(1, nwrites(u, adds))])
            if rng.random() < 0.3:
                ops.append(["save", k, rng.randint(1, nwrites(u, adds))])
            if rng.random() < 0.3:
                ops.append(["reset", keys[k][0], prior(0)])
            ops.append(["save", k, 0])
        elif shape == "reset":
            ops += [["save", k, 0], ["reset", keys[k][0], prior(0)], ["save", k, 0]]
        else:
            ops += [["save", k, 0], ["save", k, 0]]
            if rng.random() < 0.5:
                ops += [["map", k, mapping()], ["save", k, 0]]
        if rng.random() < 0.5:
            ops.append(["read", k, 0, 0])
    elif shape == "collide":
        cob = rng.choice([gen_cob(rng), 0x580 + ids[0], 0x700 + ids[0], 0x80 + ids[-1], 0x182, 0])
        for k in range(len(keys)):
            ops += [["set", k, attrs(cob if rng.random() < 0.8 else None, True if rng.random() < 0.8 else None)],
                    ["map", k, mapping()], [rng.choice(["save", "save", "read"]), k, 0, 0][:3 if rng.random() < 2 else 4]]
            if ops[-1][0] == "read":
                ops[-1] = ["read", k, 0, 0]
        for _ in range(rng.randint(1, 3)):
            k = rng.randrange(len(keys))
            r = rng.random()
            if r < 0.6:
                ops += [["set", k, attrs(rng.choice([gen_cob(rng), cob]), None)], ["save", k, 0]]
            elif r < 0.8:
                ops += [["reset", keys[k][0], prior(0)], ["read", k, 0, 0]]
            else:
                ops += [["read", k, 0, 0]]
    elif shape == "move":
        # one node object is used on a network, detached (del net[id]) and attached to another Network object (or to
        # the same one again), or the application unsubscribes the COB-ID; then read() / save() again
        k = rng.randrange(len(keys))
        ni = keys[k][0]
        u = attrs(None, True if rng.random() < 0.85 else None)
        ops += [["set", k, u], ["map", k, mapping()], ["save", k, 0]]
        if rng.random() < 0.4:
            ops.append(["read", k, 0, 0])
        for _ in range(rng.randint(1, 3)):
            r = rng.random()
            if r < 0.6: ops.append(["move", ni, rng.randrange(c["nnets"])])
            elif r < 0.85: ops.append(["unsub", k])
            else: ops.append(["set", k, dict(u, cob=gen_cob(rng))])
            ops.append(rng.choice([["read", k, 0, 0], ["save", k, 0], ["save", k, 0]]))
        for k2 in range(len(keys)):
            if k2 != k and rng.random() < 0.5:
                ops += [["set", k2, attrs(u["cob"] if rng.random() < 0.5 else None, True)], ["save", k2, 0]]
                if rng.random() < 0.5:
                    ops += [["move", keys[k2][0], rng.randrange(c["nnets"])], ["read", k2, 0, 0]]
    elif shape == "readfail":
        k = rng.randrange(len(keys))
        ni, tp, n = keys[k]
        com, mp = com_map_index(tp, n)
        # the object holds a mapping; the device holds another one of a different size
        ops += [["set", k, attrs()], ["map", k, mapping() or [[0x2002, 0, None]]]]
        words, total = [], 0
        for _ in range(rng.randint(1, 4)):
            i, s, b = rng.choice(dobjs)
            if total + b <= 64:
                total += b
                words.append(i << 16 | s << 8 | b)
        regs = [r for r in c["nodes"][ni]["regs"] if not (r[0] == mp)]
        regs += [[mp, 0, len(words)]] + [[mp, j + 1, (words[j] if j < len(words) else 0)] for j in range(8)]
        c["nodes"][ni]["regs"] = regs
        fail = rng.choice([(mp, rng.randint(1, len(words))), (mp, len(words)), (mp, 0), (com, 2), (com, 1), (com, 3)])
        ops.append(["read", k, fail[0], fail[1]])
        r = rng.random()
        if r < 0.4: ops.append(["read", k, 0, 0])
        elif r < 0.7: ops.append(["save", k, 0])
        elif r < 0.85: ops += [["map", k, mapping()], ["save", k, rng.choice([0, 0, 3])]]
    else:
        for _ in range(rng.randint(3, 9)):
            k = rng.randrange(len(keys))
            ni, tp, n = keys[k]
            com, mp = com_map_index(tp, n)
            r = rng.random()
            if r < 0.2: ops.append(["set", k, attrs()])
            elif r < 0.4: ops.append(["map", k, mapping(rng.choice([64, 64, 100]))])
            elif r < 0.65: ops.append(["save", k, rng.choice([0, 0, 0, rng.randint(1, 12)])])
            elif r < 0.85: ops.append(["read", k] + rng.choice([[0, 0], [0, 0], [mp, rng.randint(0, 3)], [com, rng.randint(1, 6)]]))
            elif r < 0.9: ops.append(["reset", ni, prior(0)])
            elif r < 0.96: ops.append(["move", ni, rng.randrange(c["nnets"])])
            else: ops.append(["unsub", k])
    if shape == "collide" and c["nnets"] > 1 and rng.random() < 0.6:
        k = rng.randrange(len(keys))
        ops += [["move", keys[k][0], rng.randrange(c["nnets"])], [rng.choice(["save", "read"]), k, 0, 0][:3]]
        if ops[-1][0] == "read":
            ops[-1] = ["read", k, 0, 0]
    c["ops"] = ops
    return c


def gen_cases(rng, tier):
    nsr, nvalid, nrd, nod, nld = {"quick": (350, 350, 180, 170, 90), "thorough": (5000, 4000, 2000, 2000, 1000),
                                  "search": (1000, 1500, 400, 400, 200)}[tier]
    cases = []
    for n in (1, 2, 3, 4, 5, 256, 511, 512):
        for tp in (0, 1):
            cases.append(dict(kind="indices", tpdo=tp, n=n, node_id=rng.randint(1, 127)))
            cases.append(dict(kind="indices", tpdo=tp, n=n, node_id=rng.randint(1, 127), devinfo=True))
    for _ in range(nvalid):
        cases.append(gen_save_read(rng, "valid"))
    for _ in range(nsr):
        cases.append(gen_save_read(rng))
    for _ in range(nrd):
        cases.append(gen_read(rng))
    for _ in range(nod):
        cases.append(gen_from_od(rng))
    for _ in range(nld):
        cases.append(gen_from_od(rng, "load"))
    for _ in range({"quick": 160, "thorough": 2500, "search": 600}[tier]):
        cases.append(gen_history(rng, tier))
    return cases


def neighbours(c, rng):
    if c["kind"] != "save_read":
        return
    for _ in range(30):
        d = gen_save_read(rng, "valid")
        d["tpdo"], d["n"] = c["tpdo"], c["n"]
        d["regs"] = gen_regs(rng, d, d["od"], d["dev"]["objs"])
        yield d


def shrink(c):
    k = c["kind"]
    if k == "history":
        ops = c["ops"]
        for i in range(len(ops)):
            yield dict(c, ops=ops[:i] + ops[i + 1:])
        for i, op in enumerate(ops):
            if op[0] == "map" and op[2]:
                for j in range(len(op[2])):
                    yield dict(c, ops=ops[:i] + [["map", op[1], op[2][:j] + op[2][j + 1:]]] + ops[i + 1:])
            if op[0] == "set":
                u = op[2]
                for key in ("inhibit", "event", "sync"):
                    if u[key] is not None:
                        yield dict(c, ops=ops[:i] + [["set", op[1], dict(u, **{key: None})]] + ops[i + 1:])
        return
    if k == "save_read":
        for i in range(len(c["adds"])):
            yield dict(c, adds=c["adds"][:i] + c["adds"][i + 1:])
        u = c["cfg"]
        for key in ("inhibit", "event", "sync"):
            if u[key] is not None:
                yield dict(c, cfg=dict(u, **{key: None}))
        if u["cob"] not in (None, 0x181):
            yield dict(c, cfg=dict(u, cob=0x181))
        if u["tt"] not in (None, 255, 254):
            yield dict(c, cfg=dict(u, tt=255))
        if c["od"].get("others"):
            od2 = dict(c["od"]); od2.pop("others")
            com_keep = set(com_map_index(0, c["n"]) + com_map_index(1, c["n"]))
            yield dict(c, od=od2, regs=[r for r in c["regs"] if r[0] in com_keep])
    elif k == "from_od":
        com, mp = com_map_index(c["tpdo"], c["n"])
        cnt = [v for v in c["vals"] if v[0] == mp and v[1] == 0]
        if cnt:
            n = cnt[0][2] if cnt[0][2] is not None else cnt[0][3]
            if n:
                vals = [list(v) for v in c["vals"] if not (v[0] == mp and v[1] == n)]
                for v in vals:
                    if v[0] == mp and v[1] == 0:
                        v[2], v[3] = (n - 1, v[3]) if v[2] is not None else (None, n - 1)
                yield dict(c, vals=vals)
    elif k == "read":
        com, mp = com_map_index(c["tpdo"], c["n"])
        for r in c["regs"]:
            if r[0] == mp and r[1] == 0 and r[2] > 0:
                yield dict(c, regs=[[i, s, (v - 1 if (i, s) == (mp, 0) else v)] for i, s, v in c["regs"]])
