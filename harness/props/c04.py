"""C04 - data type codec is the exact CiA 301 representation and never silently wraps."""
import logging, math
from vlib.obs import S, Err, guarded, gz, gzlist, gopt, E_FUEL

logging.disable(logging.CRITICAL)   # the library warns about values outside the advisory limits

PROP = "C04"
MODEL_VO = ["theories/Model/Codec.vo"]
COQ_IMPORTS = "From CV Require Import Model.Codec."
COQ_RUN = "run_codec"
ANCHORS = [("canopen.objectdictionary", "ODVariable.encode_raw"), ("canopen.objectdictionary", "ODVariable.decode_raw"), ("canopen.objectdictionary", "ODVariable.__len__"), ("canopen.objectdictionary.datatypes", "IntegerN"), ("canopen.objectdictionary.datatypes", "UnsignedN")]
COQ_CASE_TYPE = "codec_case"
RULE = ("cases = (type, value) encodes, (type, bytes) decodes, decode-then-encode, text round trips, REAL bit patterns; "
        "values at range ends +-2, powers of two +-2, 0, +-1, seeded random, just outside the range; byte strings of "
        "every length 0..9; non-trivial = an in-range value other than 0, a rejected value, or a byte string of length >= 1; "
        "distinct by canonical JSON of the case")
EXHAUSTIVE = {"thorough": True}
EXPLANATION = "thorough tier sweeps all values of the 8- and 16-bit types (encode, decode, re-encode) through the oracle"
TRUSTED = ["modelled, not verified: CPython struct double->single rounding (REAL32 cases use values exact in binary32); codecs ascii / utf_16_le C implementation (modelled in Gallina, tied by correspondence)"]
ASSUMPTIONS = ["REAL32/REAL64 are modelled as their IEEE-754 bit patterns"]

# CiA 301 table written here from the standard, NOT read from the library
INT_TYPES = {0x02: (True, 8), 0x03: (True, 16), 0x10: (True, 24), 0x04: (True, 32), 0x12: (True, 40),
             0x13: (True, 48), 0x14: (True, 56), 0x15: (True, 64),
             0x05: (False, 8), 0x06: (False, 16), 0x16: (False, 24), 0x07: (False, 32), 0x18: (False, 40),
             0x19: (False, 48), 0x1A: (False, 56), 0x1B: (False, 64)}
BOOLEAN, REAL32, REAL64, VISIBLE, OCTET, UNICODE, DOMAIN = 1, 8, 0x11, 9, 0xA, 0xB, 0xF
REALS = {REAL32: (8, 23), REAL64: (11, 52)}


def rng_of(signed, w):
    return (-(1 << (w - 1)), (1 << (w - 1)) - 1) if signed else (0, (1 << w) - 1)


# ---- independent IEEE-754 conversions (no struct) ----
def bits_to_float(bits, eb, mb):
    sign = -1.0 if bits >> (eb + mb) else 1.0
    e = (bits >> mb) & ((1 << eb) - 1)
    m = bits & ((1 << mb) - 1)
    bias = (1 << (eb - 1)) - 1
    if e == (1 << eb) - 1:
        return sign * math.inf if m == 0 else math.nan
    if e == 0:
        return sign * math.ldexp(m, 1 - bias - mb)
    return sign * math.ldexp((1 << mb) | m, e - bias - mb)


def float_to_bits(x, eb, mb):
    bias = (1 << (eb - 1)) - 1
    s = 1 if math.copysign(1.0, x) < 0 else 0
    x = abs(x)
    if math.isinf(x):
        return (s << (eb + mb)) | (((1 << eb) - 1) << mb)
    if x == 0:
        return s << (eb + mb)
    m, e = math.frexp(x)           # x = m * 2**e, 0.5 <= m < 1
    E = e - 1 + bias
    if E <= 0:                     # subnormal
        mant = x / math.ldexp(1.0, 1 - bias - mb)
        assert mant == int(mant)
        return (s << (eb + mb)) | int(mant)
    mant = (m * 2 - 1) * (1 << mb)
    assert mant == int(mant), "value not exact in target format"
    return (s << (eb + mb)) | (E << mb) | int(mant)


def _var(dt, lim=None):
    from canopen.objectdictionary import ODVariable
    v = ODVariable("v", 0x2000, 0)
    v.data_type = dt
    if lim is not None:      # advisory limits (LowLimit / HighLimit of the EDS): the codec must not depend on them
        v.min, v.max = lim
    return v


class _IntSub(int):
    """an int subclass, as an IntEnum member or a numpy-free 'typed integer' of an application would be"""


def as_type(v, vt):
    """the same integral value handed over as another Python number type"""
    if vt is None: return v
    if vt == "decimal":
        import decimal
        return decimal.Decimal(v)
    if vt == "fraction":
        import fractions
        return fractions.Fraction(v)
    if vt == "intsub": return _IntSub(v)
    raise ValueError(vt)


def canon_value(v):
    if isinstance(v, bool): return int(v)
    if isinstance(v, str): return S(v)
    return v


def impl(c):
    k = c["kind"]
    var = _var(c["dt"], c.get("lim"))
    if k == "enc_int":
        return guarded(lambda: bytes(var.encode_raw(as_type(c["v"], c.get("vt")))))
    if k == "enc_str":
        return guarded(lambda: bytes(var.encode_raw("".join(chr(x) for x in c["s"]))))
    if k == "enc_real":
        eb, mb = REALS[c["dt"]]
        return guarded(lambda: bytes(var.encode_raw(bits_to_float(c["bits"], eb, mb))))
    if k == "dec":
        def conv(r):
            if isinstance(r, float):
                eb, mb = REALS[c["dt"]]
                return [float_to_bits(r, eb, mb)]
            return canon_value(r)
        def f():
            bs = bytes(c["bs"])
            if c.get("buf") != "bytearray":
                return conv(var.decode_raw(bs))
            # the caller's buffer is a bytearray (as the SDO layers hand it over): decoding must not change it,
            # and decoding it again must give the same
            buf = bytearray(bs)
            r = conv(var.decode_raw(buf))
            if bytes(buf) != bs:
                raise RuntimeError(f"decode_raw changed the caller's buffer to {bytes(buf).hex()}")
            r2 = conv(var.decode_raw(buf))
            if r2 != r or bytes(buf) != bs:
                raise RuntimeError(f"second decode of the same buffer gives {r2!r}, the first gave {r!r}")
            return r
        return guarded(f)
    if k == "dec_enc":
        def f():
            bs = bytes(c["bs"])
            buf = bytearray(bs) if c.get("buf") == "bytearray" else bs
            r = var.decode_raw(buf)
            if bytes(buf) != bs:
                raise RuntimeError(f"decode_raw changed the caller's buffer to {bytes(buf).hex()}")
            return [canon_value(r), bytes(var.encode_raw(r))]
        return guarded(f)
    if k == "str_rt":
        def f():
            s = "".join(chr(x) for x in c["s"])
            b = var.encode_raw(s)
            return [bytes(b), S(var.decode_raw(b))]
        return guarded(f)
    if k == "len":
        return guarded(lambda: len(var))
    if k == "enc_pair":      # two encodes of one type; the first result is still held when the second is made
        def f():
            r1 = var.encode_raw(c["v"])
            r2 = var.encode_raw(c["v2"])
            return [bytes(r1), bytes(r2), type(r1).__name__]
        return guarded(f)
    if k == "enc_conc":      # several threads encode different values of one type at the same time
        def f():
            import sys, threading
            vals = c["vals"]
            signed, w = INT_TYPES[c["dt"]]
            exp = [v.to_bytes(w // 8, "little", signed=signed) for v in vals]
            bad = [0] * len(vals)
            first = [None] * len(vals)
            def worker(i):
                v, e = vals[i], exp[i]
                for _ in range(c["reps"]):
                    r = bytes(_var(c["dt"]).encode_raw(v))
                    if r != e:
                        bad[i] += 1
                        if first[i] is None: first[i] = r.hex()
            old = sys.getswitchinterval()
            try:
                sys.setswitchinterval(1e-6)
                ths = [threading.Thread(target=worker, args=(i,)) for i in range(len(vals))]
                for t in ths: t.start()
                for t in ths: t.join()
            finally:
                sys.setswitchinterval(old)
            return [bad, [S(x) if x else None for x in first]]
        return guarded(f)
    if k == "enc_float_big":  # a finite float outside the REAL32 range
        return guarded(lambda: bytes(var.encode_raw(float.fromhex(c["hex"]))))
    raise ValueError(k)


def oracle(c, o):
    k, dt = c["kind"], c["dt"]
    if k == "enc_int":
        if dt in INT_TYPES:
            signed, w = INT_TYPES[dt]
            lo, hi = rng_of(signed, w)
            v = c["v"]
            if lo <= v <= hi:
                exp = v.to_bytes(w // 8, "little", signed=signed)
                if o != exp:
                    return ("enc_int_wrong", f"type 0x{dt:X} value {v}: got {o!r}, CiA 301 encoding is {exp.hex()}")
            elif not isinstance(o, Err):
                return ("enc_out_of_range_accepted", f"type 0x{dt:X} value {v} outside [{lo},{hi}] encoded as {o!r}")
        elif dt == BOOLEAN:
            exp = bytes([1 if c["v"] else 0])
            if o != exp:
                return ("enc_bool_wrong", f"value {c['v']} -> {o!r}")
        return None
    if k == "enc_real":
        w = 4 if dt == REAL32 else 8
        exp = c["bits"].to_bytes(w, "little")
        if o != exp:
            return ("enc_real_wrong", f"type 0x{dt:X} bits {c['bits']:#x} -> {o!r}")
        return None
    if k == "dec":
        bs = bytes(c["bs"])
        if dt in INT_TYPES:
            signed, w = INT_TYPES[dt]
            if len(bs) == w // 8:
                exp = int.from_bytes(bs, "little", signed=signed)
                if o != exp or isinstance(o, bool):
                    return ("dec_int_wrong", f"type 0x{dt:X} bytes {bs.hex()} -> {o!r}, expected {exp}")
            elif not isinstance(o, Err):
                return ("dec_wrong_length_accepted", f"type 0x{dt:X} {len(bs)} bytes {bs.hex()} decoded to {o!r}")
        elif dt == BOOLEAN:
            if len(bs) == 1:
                if bs[0] in (0, 1) and o != bs[0]:
                    return ("dec_bool_wrong", f"{bs.hex()} -> {o!r}")
            elif not isinstance(o, Err):
                return ("dec_wrong_length_accepted", f"BOOLEAN {len(bs)} bytes decoded to {o!r}")
        elif dt in REALS:
            w = 4 if dt == REAL32 else 8
            if len(bs) == w:
                bits = int.from_bytes(bs, "little")
                eb, mb = REALS[dt]
                if math.isnan(bits_to_float(bits, eb, mb)):
                    return None
                if o != [bits]:
                    return ("dec_real_wrong", f"type 0x{dt:X} {bs.hex()} -> {o!r}")
            elif not isinstance(o, Err):
                return ("dec_wrong_length_accepted", f"REAL {len(bs)} bytes decoded to {o!r}")
        return None
    if k == "dec_enc":
        bs = bytes(c["bs"])
        if dt in INT_TYPES and len(bs) == INT_TYPES[dt][1] // 8:
            if isinstance(o, Err) or o[1] != bs:
                return ("dec_enc_not_identity", f"type 0x{dt:X} bytes {bs.hex()} -> {o!r}")
        return None
    if k == "str_rt":
        s = c["s"]
        valid = (all(0 <= x < 128 for x in s) if dt == VISIBLE else
                 all(0 <= x < 0x110000 and not 0xD800 <= x < 0xE000 for x in s))
        if valid and (not s or s[-1] != 0):
            txt = "".join(chr(x) for x in s)
            exp = txt.encode("ascii") if dt == VISIBLE else b"".join(
                (x.to_bytes(2, "little") if x < 0x10000 else
                 (0xD800 + ((x - 0x10000) >> 10)).to_bytes(2, "little") + (0xDC00 + ((x - 0x10000) & 0x3FF)).to_bytes(2, "little"))
                for x in s)
            if isinstance(o, Err) or o[0] != exp or o[1] != S(txt):
                return ("text_roundtrip", f"type 0x{dt:X} text {s!r} -> {o!r}")
        elif not valid and dt == VISIBLE and not isinstance(o, Err):
            return ("non_ascii_accepted", f"{s!r} -> {o!r}")
        return None
    if k == "enc_pair":
        signed, w = INT_TYPES[dt]
        e1 = c["v"].to_bytes(w // 8, "little", signed=signed)
        e2 = c["v2"].to_bytes(w // 8, "little", signed=signed)
        if isinstance(o, Err) or o[0] != e1 or o[1] != e2:
            return ("enc_result_not_stable", f"type 0x{dt:X}: encode({c['v']}) then encode({c['v2']}): first result now {o!r}, expected {e1.hex()} / {e2.hex()}")
        if o[2] not in ("bytes", "bytearray"):
            return ("enc_result_not_bytes", f"type 0x{dt:X}: encode_raw returned a {o[2]}")
        return None
    if k == "enc_conc":
        if isinstance(o, Err) or any(o[0]):
            return ("enc_wrong_under_concurrency", f"type 0x{dt:X}: threads encoding {c['vals']} at the same time got wrong bytes: {o!r}")
        return None
    if k == "enc_float_big":
        if not isinstance(o, Err):
            return ("enc_out_of_range_accepted", f"REAL32 value {c['hex']} (finite, outside the binary32 range) encoded as {o!r}")
        return None
    if k == "len":
        exp = INT_TYPES[dt][1] if dt in INT_TYPES else {BOOLEAN: 8, REAL32: 32, REAL64: 64}.get(dt, 8)
        if o != exp:
            return ("len_wrong", f"type 0x{dt:X}: {o!r} != {exp}")
        return None


def coq_case(c):
    k, dt = c["kind"], f"(Some {gz(c['dt'])})"
    if k == "enc_int": return f"CEnc {dt} (PInt {gz(c['v'])})"
    if k == "enc_str": return f"CEnc {dt} (PStr {gzlist(c['s'])})"
    if k == "enc_real": return f"CEnc {dt} (PFloat {gz(c['bits'])})"
    if k == "dec": return f"CDec {dt} {gzlist(c['bs'])}"
    if k == "dec_enc": return f"CDecEnc {dt} {gzlist(c['bs'])}"
    if k == "str_rt": return f"CStrRt {dt} {gzlist(c['s'])}"
    if k == "len": return f"CLen {dt}"
    raise ValueError(k)


def nontrivial(c):
    k = c["kind"]
    if k == "enc_int": return c["v"] != 0
    if k in ("dec", "dec_enc"): return len(c["bs"]) >= 1
    if k in ("str_rt", "enc_str"): return len(c["s"]) >= 1
    return k in ("enc_real", "enc_pair", "enc_float_big", "enc_conc")


def boundary_values(signed, w):
    lo, hi = rng_of(signed, w)
    vals = set()
    for b in (lo, hi):
        vals.update(range(b - 2, b + 3))
    for p in range(0, 66):
        for d in (-2, -1, 0, 1, 2):
            vals.add((1 << p) + d)
            vals.add(-(1 << p) + d)
    vals.update((0, 1, -1))
    return sorted(vals)


REAL_BITS = {
    REAL32: [0x00000000, 0x80000000, 0x7F800000, 0xFF800000, 0x00000001, 0x807FFFFF, 0x00800000, 0x3F800000,
             0xBF800000, 0x7F7FFFFF, 0x40490FDB, 0x00400000, 0xC2F6E979],
    REAL64: [0, 1 << 63, 0x7FF0000000000000, 0xFFF0000000000000, 1, 0x800FFFFFFFFFFFFF, 0x0010000000000000,
             0x3FF0000000000000, 0xBFF0000000000000, 0x7FEFFFFFFFFFFFFF, 0x400921FB54442D18, 0x0008000000000000],
}


def gen_cases(rng, tier):
    cases = []
    n_rand = {"quick": 6, "thorough": 60, "search": 40}[tier]
    for dt, (signed, w) in INT_TYPES.items():
        lo, hi = rng_of(signed, w)
        vals = boundary_values(signed, w)
        if tier != "thorough":
            vals = [v for v in vals if abs(v) < 64 or min(abs(v - lo), abs(v - hi)) <= 2 or
                    min(abs(abs(v) - (1 << p)) for p in (w - 9, w - 8, w - 1, w, w + 1, 31, 32, 63, 64) if p >= 0) <= 2]
        vals += [rng.randint(lo, hi) for _ in range(n_rand)]
        vals += [rng.randint(lo - (1 << w), lo - 1) for _ in range(2)] + [rng.randint(hi + 1, hi + (1 << w)) for _ in range(2)]
        for v in vals:
            cases.append(dict(kind="enc_int", dt=dt, v=v))
        for n in range(0, 10):
            reps = 3 if n == w // 8 else 1
            for _ in range(reps):
                bs = [rng.randrange(256) for _ in range(n)]
                cases.append(dict(kind="dec", dt=dt, bs=bs))
        for pat in ([0] * (w // 8), [255] * (w // 8), [0] * (w // 8 - 1) + [0x80], [255] * (w // 8 - 1) + [0x7F]):
            cases.append(dict(kind="dec", dt=dt, bs=list(pat)))
            cases.append(dict(kind="dec_enc", dt=dt, bs=list(pat)))
        for _ in range(n_rand):
            cases.append(dict(kind="dec_enc", dt=dt, bs=[rng.randrange(256) for _ in range(w // 8)]))
        cases.append(dict(kind="len", dt=dt))
    # results of earlier encodes stay what they were; finite floats beyond binary32 are rejected
    for dt, (signed, w) in INT_TYPES.items():
        lo, hi = rng_of(signed, w)
        for _ in range(2):
            cases.append(dict(kind="enc_pair", dt=dt, v=rng.randint(lo, hi), v2=rng.randint(lo, hi), model=False))
    for hx in ("0x1.ffffffp+127", "0x1.0p+128", "-0x1.0p+128", "0x1.fffffffffffffp+1023", "-0x1.8p+200", "0x1.2ced32a16a1b1p+129"):
        cases.append(dict(kind="enc_float_big", dt=REAL32, hex=hx, model=False))
    # boolean
    for v in (0, 1):
        cases.append(dict(kind="enc_int", dt=BOOLEAN, v=v))
    for n in range(0, 4):
        cases.append(dict(kind="dec", dt=BOOLEAN, bs=[rng.choice((0, 1))] * n))
    cases.append(dict(kind="len", dt=BOOLEAN))
    # reals
    for dt, pats in REAL_BITS.items():
        w = 4 if dt == REAL32 else 8
        eb, mb = REALS[dt]
        extra = []
        while len(extra) < n_rand:
            b = rng.getrandbits(8 * w)
            if not math.isnan(bits_to_float(b, eb, mb)):
                extra.append(b)
        for b in pats + extra:
            cases.append(dict(kind="enc_real", dt=dt, bits=b))
            cases.append(dict(kind="dec", dt=dt, bs=list(b.to_bytes(w, "little"))))
        for n in range(0, 10):
            if n != w:
                cases.append(dict(kind="dec", dt=dt, bs=[rng.randrange(256) for _ in range(n)]))
        cases.append(dict(kind="len", dt=dt))
    # text
    def rs(maxcp, n):
        s = [rng.choice([rng.randrange(1, 128), rng.randrange(0, maxcp)]) for _ in range(n)]
        return [x for x in s if not 0xD800 <= x < 0xE000]
    for _ in range({"quick": 40, "thorough": 400, "search": 200}[tier]):
        cases.append(dict(kind="str_rt", dt=VISIBLE, s=rs(128, rng.randrange(0, 12))))
        cases.append(dict(kind="str_rt", dt=UNICODE, s=rs(rng.choice((0x100, 0x10000, 0x110000)), rng.randrange(0, 12))))
    cases.append(dict(kind="str_rt", dt=VISIBLE, s=list(range(1, 128))))
    cases.append(dict(kind="str_rt", dt=VISIBLE, s=[65, 200, 66]))
    cases.append(dict(kind="str_rt", dt=VISIBLE, s=[65, 0, 0]))
    cases.append(dict(kind="str_rt", dt=UNICODE, s=[65, 0, 66, 0]))
    cases.append(dict(kind="str_rt", dt=UNICODE, s=[0xD7FF, 0xE000, 0xFFFF, 0x10000, 0x10FFFF]))
    # special code points in leading / trailing / inner position (byte-order marks, plane and surrogate borders)
    for cp in (0xFEFF, 0xFFFE, 0xFFFF, 0xFFFD, 0xD7FF, 0xE000, 0x10000, 0x10FFFF, 0x7F, 0x80, 0xFF, 0x100, 1, 0x2028, 0x85):
        for s_ in ([cp], [cp, 0x61], [0x61, cp], [cp, cp, 0x62], [0x61, cp, 0x62]):
            cases.append(dict(kind="str_rt", dt=UNICODE, s=s_))
            u = []
            for x in s_:
                if x < 0x10000: u += [x & 255, x >> 8]
            cases.append(dict(kind="dec", dt=UNICODE, bs=u))
    for cp in (1, 0x7F, 0x20, 0x0A, 0x0D, 0x09):
        for s_ in ([cp], [cp, 0x61], [0x61, cp], [0x61, cp, 0x62]):
            cases.append(dict(kind="str_rt", dt=VISIBLE, s=s_))
    step = 257 if tier == "quick" else 17
    cases.append(dict(kind="str_rt", dt=UNICODE, s=[x for x in range(1, 0x10000, step) if not 0xD800 <= x < 0xE000]))
    # malformed text bytes (model only; no oracle demand)
    for _ in range({"quick": 30, "thorough": 300, "search": 0}[tier]):
        n = rng.randrange(0, 9)
        cases.append(dict(kind="dec", dt=VISIBLE, bs=[rng.choice([0, rng.randrange(256)]) for _ in range(n)]))
        bs = []
        for _ in range(rng.randrange(0, 5)):
            u = rng.choice([rng.randrange(0x20, 0x7F), 0, rng.randrange(0xD800, 0xE000), rng.randrange(0x10000)])
            bs += [u & 255, u >> 8]
        if rng.random() < 0.3: bs.append(rng.randrange(256))
        cases.append(dict(kind="dec", dt=UNICODE, bs=bs))
    # other types: DOMAIN / OCTET_STRING / unknown pass bytes through
    for dt in (OCTET, DOMAIN, 0xC, 0x40):
        cases.append(dict(kind="dec", dt=dt, bs=[rng.randrange(256) for _ in range(5)]))
        cases.append(dict(kind="len", dt=dt))
    if tier == "thorough":
        # exhaustive 8- and 16-bit sweeps through the oracle (not through the model)
        for dt in (0x02, 0x05, 0x03, 0x06):
            signed, w = INT_TYPES[dt]
            lo, hi = rng_of(signed, w)
            for v in range(lo, hi + 1):
                cases.append(dict(kind="enc_int", dt=dt, v=v, model=(w == 8)))
            for u in range(1 << w):
                cases.append(dict(kind="dec_enc", dt=dt, bs=list(u.to_bytes(w // 8, "little")), model=(w == 8)))
    # the packers are shared objects (class-level table): concurrent encodes of one type must not interfere
    for dt, (signed, w) in INT_TYPES.items():
        if tier == "quick" and w in (8, 16, 32, 64) and rng.random() < 0.5:
            continue
        lo, hi = rng_of(signed, w)
        cases.append(dict(kind="enc_conc", dt=dt, vals=[lo, hi, 1, rng.randint(lo, hi)][:3 if tier == "quick" else 4],
                          reps={"quick": 1500, "thorough": 6000, "search": 4000}[tier], model=False))
    # configured limits (ODVariable.min / .max) are advisory: a third of the integer cases carry limits, mostly
    # such that the value lies outside them; model and oracle are those of the case without limits
    for c in cases:
        if c["kind"] in ("enc_int", "enc_pair", "dec_enc") and c["dt"] in INT_TYPES and rng.random() < 0.34:
            signed, w = INT_TYPES[c["dt"]]
            lo, hi = rng_of(signed, w)
            v = c.get("v", rng.randint(lo, hi))
            r = rng.random()
            if r < 0.4: lim = [v + 1, v + 1 + rng.randint(0, 1000)]
            elif r < 0.8: lim = [v - 1 - rng.randint(0, 1000), v - 1]
            elif r < 0.9: lim = [lo, hi]
            else: lim = [rng.randint(lo, hi), None]
            c["lim"] = lim
    # the same integral value as another exact Python number type (the codec converts with int())
    for c in cases:
        if c["kind"] == "enc_int" and c["dt"] in INT_TYPES and rng.random() < 0.2:
            c["vt"] = rng.choice(["decimal", "fraction", "intsub"])
    # half of the decodes get the bytes in a bytearray
    for c in cases:
        if c["kind"] in ("dec", "dec_enc") and rng.random() < 0.5:
            c["buf"] = "bytearray"
    return cases


def shrink(c):
    if c["kind"] == "enc_int":
        v = c["v"]
        for cand in (v // 2, v - 1 if v > 0 else v + 1):
            if cand != v:
                yield dict(c, v=cand)
    elif c["kind"] in ("str_rt",):
        s = c["s"]
        for i in range(len(s)):
            yield dict(c, s=s[:i] + s[i + 1:])
