"""C08 - importing an EDS/DCF yields exactly the described object dictionary."""
import contextlib, io, logging, os, shutil, tempfile
from decimal import Decimal
from vlib.obs import S, Err, guarded, gz, gzlist, gopt, gbool, glist
from ref import eds_writer as W
from ref import odgen

PROP = "C08"
ANCHORS = [('canopen.objectdictionary.eds', 'import_eds'), ('canopen.objectdictionary.eds', 'build_variable'), ('canopen.objectdictionary.eds', 'copy_variable'), ('canopen.objectdictionary.eds', '_convert_variable'), ('canopen.objectdictionary.eds', '_signed_int_from_hex'), ('canopen.objectdictionary.eds', '_calc_bit_length'), ('canopen.objectdictionary', 'ObjectDictionary.__getitem__'), ('canopen.objectdictionary', 'ODArray.__getitem__'), ('canopen.objectdictionary', 'ODRecord.__getitem__'), ('canopen.objectdictionary', 'import_od')]
MODEL_VO = ["theories/Model/Eds.vo", "theories/Model/RefEds.vo"]
COQ_IMPORTS = "From CV Require Import Model.Eds Model.RefEds."
FULL = os.environ.get("EDS_FULL_OBS") == "1"       # debugging aid: compare complete observations instead of digests
COQ_RUN = "run_ref_full" if FULL else "run_ref"
COQ_CASE_TYPE = "ref_case"
RULE = ("cases = generated dictionary descriptions rendered by the independent writer (3 text layouts, stream or file "
        "source, .eds/.dcf/.EDS suffix, node id explicit / from file / absent) and imported with canopen.import_od, "
        "single-value documents for every data type and number spelling, hand-made and mutated token documents "
        "(model only); non-trivial = a document with at least one object and one value, or a value text other than '0'; "
        "distinct by canonical JSON of the case")
TRUSTED = ["modelled, not verified: configparser.RawConfigParser (tokenisation, inline comments, whitespace, '%', "
           "duplicate detection), the module re (four regular expressions transcribed as recognisers), float()/repr(float) "
           "(modelled on exact decimal floating-point numbers), file handling / suffix dispatch of import_od: the text "
           "layer is tied to the model only differentially (every case checks that the rendered text tokenises to the "
           "abstract document the model receives)"]
ASSUMPTIONS = ["the theorems are proved from the token level up (document = list of sections of key/value strings)",
               "number texts are ASCII and shorter than CPython's 4300-digit limit; no section is called DEFAULT",
               "REAL values and factors are compared only when exactly representable (decimal m*10^e with <= 15 digits)"]

logging.disable(logging.CRITICAL)
# documents are long Gallina literals: smaller case files, so that all cores evaluate them in parallel
# (a run-time setting of this process only; harness/vlib itself is untouched)
from vlib import coqrun as _coqrun
_coqrun.CHUNK = 150
DI_ATTRS = ["vendor_name", "vendor_number", "product_name", "product_number", "revision_number", "order_code",
            "simple_boot_up_master", "simple_boot_up_slave", "granularity", "dynamic_channels_supported",
            "group_messaging", "nr_of_RXPDO", "nr_of_TXPDO", "LSS_supported"]
DI_KEY2ATTR = dict(zip([k for k, _ in W.DEVINFO_KEYS], DI_ATTRS))


# ------------------------------------------------------------------ digests (mirror of flat / hash_val / dg in Model/Eds.v)
HM, HP = (1 << 61) - 1, 65599


def flat(o, out):
    if isinstance(o, bool): out += [4, int(o)]
    elif isinstance(o, int): out += [1, o]
    elif o is None: out.append(5)
    elif isinstance(o, (bytes, bytearray)): out += [2, len(o)]; out += list(o)
    elif isinstance(o, S): out += [3, len(o.s)]; out += [ord(ch) for ch in o.s]
    elif isinstance(o, Err): out += [6, o.kind]
    elif isinstance(o, (list, tuple)):
        out += [8, len(o)]
        for x in o: flat(x, out)
    else: raise TypeError(repr(o))
    return out


def hash_val(o):
    h = 7
    for x in flat(o, []): h = (h * HP + x + 1) & HM
    return h


def dg(d, o):
    if isinstance(o, (bool, Err)) or o is None: return o
    if isinstance(o, (list, tuple)) and d > 0: return [dg(d - 1, x) for x in o]
    return hash_val(o)


class HObs(list):
    """an observation compared with the model through its digest; the oracle reads .full"""
    def __init__(self, full, depth=3):
        super().__init__(full if FULL else dg(depth, full))
        self.full = full


def full_obs(o): return o.full if isinstance(o, HObs) else o


# ------------------------------------------------------------------ canonical observation of a dictionary
def fnum(x):
    """a finite number as a normalised decimal floating-point pair [m, e]"""
    d = Decimal(x)
    if not d.is_finite(): return S(str(x))
    if d == 0: return [0, 0]
    sign, digits, exp = d.normalize().as_tuple()
    m = int("".join(map(str, digits)))
    return [-m if sign else m, exp]


def cval(v):
    if v is None: return None
    if isinstance(v, bool): return int(v)
    if isinstance(v, int): return v
    if isinstance(v, float): return fnum(v)
    if isinstance(v, str): return S(v)
    if isinstance(v, (bytes, bytearray)): return bytes(v)
    return S(repr(v))


def sopt(v): return None if v is None else S(v) if isinstance(v, str) else S(repr(v))


def dump_var(v):
    return [S(v.name), v.index, v.subindex, v.data_type, S(v.access_type), bool(v.pdo_mappable), cval(v.default),
            cval(v.min), cval(v.max), cval(v.value), sopt(v.storage_location), fnum(v.factor), S(v.unit), S(v.description),
            bool(v.relative), sopt(getattr(v, "default_raw", None)), sopt(getattr(v, "value_raw", None))]


def dump_od(od):
    from canopen.objectdictionary import ODVariable, ODArray
    objs = []
    for idx in sorted(od.indices):
        o = od.indices[idx]
        if isinstance(o, ODVariable):
            objs.append([7, dump_var(o)])
        else:
            objs.append([8 if isinstance(o, ODArray) else 9, S(o.name), o.index, sopt(o.storage_location),
                         [dump_var(o.subindices[k]) for k in sorted(o.subindices)],
                         [[S(n), o.names[n].subindex] for n in sorted(o.names)], len(o), list(o)])
    names = [[S(n), od.names[n].index] for n in sorted(od.names)]
    di = []
    for a in DI_ATTRS:
        v = getattr(od.device_information, a)
        di.append(v if isinstance(v, bool) or v is None else cval(v))
    return [objs, names, di, sorted(od.device_information.allowed_baudrates), S(od.comments), od.bitrate, od.node_id]


def do_lookup(od, key):
    from canopen.objectdictionary import ODVariable, ObjectDictionary
    def canon_flag(v):
        top = od.indices.get(v.index)
        if top is None: return None
        if isinstance(top, ODVariable): return top is v
        c = top.subindices.get(v.subindex)
        return None if c is None else c is v
    def f():
        r = od[key[0]]
        if len(key) == 1:
            if isinstance(r, ODVariable) and not isinstance(r.parent, ObjectDictionary):
                return [dump_var(r), canon_flag(r)]
            return [[r.index, S(r.name)], od.indices.get(r.index) is r]
        if isinstance(r, ODVariable) and not isinstance(r.parent, ObjectDictionary):
            raise TypeError("member variable is not subscriptable")
        def g():
            v = r[key[1]]
            return [dump_var(v), canon_flag(v)]
        return [guarded(g), key[1] in r]          # container protocol: `k in container` next to container[k]
    return guarded(f)


def parse_tokens(text):
    """the text layer under test: the tokens RawConfigParser (configured as in import_eds) sees"""
    from configparser import RawConfigParser
    p = RawConfigParser(inline_comment_prefixes=(';',))
    p.optionxform = str
    p.read_string(text)
    return [[sec, [[k, p.get(sec, k)] for k in p.options(sec)]] for sec in p.sections()]


def import_text(text, nid, src="stream", suffix=".eds"):
    import canopen
    if src == "file":
        d = tempfile.mkdtemp(prefix="c08-")
        try:
            path = os.path.join(d, "device" + suffix)
            with open(path, "w") as f: f.write(text)
            return canopen.import_od(path, nid)
        finally:
            shutil.rmtree(d, ignore_errors=True)
    f = io.StringIO(text)
    f.name = "device" + suffix
    return canopen.import_od(f, nid)


# ------------------------------------------------------------------ look-up keys of a description
def lookup_keys(desc):
    keys = []
    for o in desc["objects"]:
        keys += [[o["index"]], [o["name"]]]
        if o["kind"] in ("arr", "rec"):
            ms = o["members"]
            for m in {0: ms[0], 1: ms[len(ms) // 2], 2: ms[-1]}.values():
                keys += [[o["index"], m["sub"]], [o["name"], m["name"]], [o["index"], m["name"]]]
                if "." not in o["name"]:          # 'Parent.Child' splits at the first dot: only for dot-free parents
                    keys.append([o["name"] + "." + m["name"]])
            if o["kind"] == "arr" and ms[-1]["sub"] < 255:
                keys.append([o["index"], ms[-1]["sub"] + 1])       # an element made from the array template
        elif o["kind"] == "compact":
            keys += [[o["index"], k] for k in range(0, o["n"] + 2)]
            for sb, nm in list((o["names"] or {}).items())[:2]:
                keys.append([o["name"], nm])
                if "." not in o["name"]: keys.append([o["name"] + "." + nm])
    return keys


# ------------------------------------------------------------------ implementation
def impl(c):
    k = c["kind"]
    if k == "imp":
        doc = W.tokens(c["desc"])
        text = W.render(doc, c.get("style", 0))
        keys = lookup_keys(c["desc"])
    elif k == "raw":
        doc = c["doc"]; text = W.render(doc, 0); keys = c.get("keys", [])
    elif k == "val":
        return impl_val(c)
    else:
        raise ValueError(k)
    def f():
        od = import_text(text, c.get("nid"), c.get("src", "stream"), c.get("suffix", ".eds"))
        obs = [parse_tokens(text) == doc, dump_od(od), [do_lookup(od, key) for key in keys]]
        if c.get("via") == "desc":      # tie between the Python writer and the Gallina writer: the same token document
            obs.append([[S(sec), [[S(k2), S(v2)] for k2, v2 in sorted(kv)]] for sec, kv in doc if sec not in FRAME_ONLY])
        return HObs(obs)
    return guarded(f)


def val_doc(c):
    kv = [["ParameterName", "v"], ["DataType", "0x%04X" % c["dt"]], ["AccessType", "rw"], [c["key"], c["text"]]]
    return [["2000", kv]]


def impl_val(c):
    def f():
        od = import_text(W.render(val_doc(c), 0), c.get("nid"))
        v = od[0x2000]
        if c["key"] == "Factor": return fnum(v.factor)
        return cval({"DefaultValue": v.default, "ParameterValue": v.value, "LowLimit": v.min, "HighLimit": v.max}[c["key"]])
    return guarded(f)


# ------------------------------------------------------------------ oracle (the property's own statement)
VAR_FIELDS = ["name", "index", "sub", "dt", "access", "pdo", "default", "low", "high", "value", "storage", "factor",
              "unit", "descr", "relative", "default_raw", "value_raw"]


def vd(dump):
    d = dict(zip(VAR_FIELDS, dump))
    d["factor"] = tuple(d["factor"]) if isinstance(d["factor"], list) else d["factor"]
    return d


def sem(x):
    """description value -> canonical observation"""
    if isinstance(x, tuple) and x and x[0] == "flt": return [x[1], x[2]]
    return cval(x)


def check_var(where, got, exp, attrs=None, value_too=True):
    """got: vd(dump); exp: W.expected_var(...)"""
    for a in attrs or ["name", "index", "sub", "dt", "access", "pdo", "default", "value", "low", "high", "storage",
                       "factor", "unit", "descr"]:
        e = exp[a]
        if a in ("default", "value"):
            if e == ("skip",): continue
            if a == "value" and not value_too: continue
            e = sem(e)
        elif a in ("name", "access", "unit", "descr"): e = S(e)
        elif a == "storage": e = sopt(e)
        elif a == "factor": e = tuple(e)
        if got[a] != e or (a == "pdo" and not isinstance(got[a], bool)):
            return (f"{a}_wrong", f"{where}: {a} is {got[a]!r}, the file describes {e!r}")
    return None


def check_dictionary(desc, nid_param, dump, lookups, keys, names_demanded=True, value_too=True):
    """Does the imported dictionary contain exactly what `desc` describes?  Independent of library and model."""
    nid = W.node_id_in_force(desc, nid_param)
    # container[k] results carry `k in container` as a second component
    norm = []
    for key, res in zip(keys, lookups):
        if len(key) == 2 and not isinstance(res, Err):
            inner, cin = res
            if not isinstance(inner, Err) and cin is not True:
                return ("contains_inconsistent", f"od[{key[0]!r}][{key[1]!r}] resolves, but `{key[1]!r} in od[{key[0]!r}]` is {cin!r}")
            norm.append(inner)
        else:
            norm.append(res)
    lookups = norm
    objs, names, di, baud, comments, bitrate, node_id = dump
    by_index = {}
    for o in objs:
        by_index[o[1][1] if o[0] == 7 else o[2]] = o
    want = {o["index"] for o in desc["objects"]}
    if set(by_index) != want:
        return ("object_set", f"objects present {sorted(map(hex, by_index))} != described {sorted(map(hex, want))}")
    for o in desc["objects"]:
        g = by_index[o["index"]]
        where = f"object 0x{o['index']:04X}"
        if o["kind"] in ("var", "domain"):
            if g[0] != 7: return ("kind_wrong", f"{where}: described as a variable, imported as kind {g[0]}")
            r = check_var(where, vd(g[1]), W.expected_var(o["var"], o["index"], nid, name=o["name"], sub=0), value_too=value_too)
            if r: return r
            continue
        kind = 9 if o["kind"] == "rec" else 8
        if g[0] != kind: return ("kind_wrong", f"{where}: described as kind {kind}, imported as kind {g[0]}")
        if g[1] != S(o["name"]): return ("name_wrong", f"{where}: name {g[1]!r} != {o['name']!r}")
        if g[3] != sopt(o.get("storage")): return ("storage_wrong", f"{where}: storage location {g[3]!r} != {o.get('storage')!r}")
        members = {m[2]: vd(m) for m in g[4]}
        if g[6] != len(members) or g[7] != sorted(members):
            return ("container_protocol", f"{where}: len() = {g[6]}, iteration = {g[7]}, listed members {sorted(members)}")
        if o["kind"] in ("arr", "rec"):
            if set(members) != {m["sub"] for m in o["members"]}:
                return ("sub_set", f"{where}: sub-indices {sorted(members)} != described {[m['sub'] for m in o['members']]}")
            for m in o["members"]:
                r = check_var(f"{where} sub {m['sub']}", members[m["sub"]], W.expected_var(m, o["index"], nid), value_too=value_too)
                if r: return r
        else:
            n = o["n"]
            if not ({0, 1} <= set(members) <= set(range(0, n + 1))):
                return ("sub_set", f"{where}: compact array of {n} has sub-indices {sorted(members)}")
            if members[0]["dt"] != 0x05:
                return ("dt_wrong", f"{where} sub 0: data type {members[0]['dt']} is not UNSIGNED8")
            # expansion: every sub-index 1..n reachable with the described attributes
            for k in range(1, n + 1):
                res = lookups[keys.index([o["index"], k])]
                if isinstance(res, Err):
                    return ("compact_not_expanded", f"{where}: od[0x{o['index']:04X}][{k}] raised {res!r}")
                listed = (o["names"] or {}).get(str(k))
                attrs = ["index", "sub", "dt", "access", "pdo", "default", "low", "high", "storage", "factor", "unit", "descr"]
                if listed is not None: attrs = ["name"] + attrs
                r = check_var(f"{where} sub {k}", vd(res[0]), W.expected_var(o["var"], o["index"], nid, name=listed, sub=k), attrs)
                if r:
                    if r[0] == "pdo_wrong" and listed is None and k >= 2:
                        return ("compact_template_pdo_mappable_lost", r[1])
                    return r
    # device information, bit rate, node id, comments
    if desc.get("devinfo") is not None:
        for (k, t), got in zip(W.DEVINFO_KEYS, di):
            if k in desc["devinfo"]:
                e = desc["devinfo"][k]
                e = S(e) if t is str else bool(e) if t is bool else int(e)
                if got != e or type(got) is not type(e):
                    return ("devinfo_wrong", f"DeviceInfo {k}: imported {got!r}, file says {e!r}")
        e = sorted(int(r) * 1000 for r, on in desc.get("baud", {}).items() if on)
        if baud != e: return ("baud_wrong", f"allowed bit rates {baud} != {e}")
    if desc.get("comments") is not None and comments != S("\n".join(desc["comments"])):
        return ("comments_wrong", f"comments {comments!r} != {desc['comments']!r}")
    if desc.get("commissioning"):
        e = desc["baudrate_kbit"] * 1000 if desc.get("baudrate_kbit") else None
        if bitrate != e: return ("bitrate_wrong", f"bit rate {bitrate!r} != {e!r}")
        if node_id != nid: return ("node_id_wrong", f"node id {node_id!r} != {nid!r} (the node id in force)")
    # look-ups reach the same object
    if names_demanded:
        for key, res in zip(keys, lookups):
            o = next((x for x in desc["objects"] if x["index"] == key[0] or x["name"] == key[0]), None) or \
                next(x for x in desc["objects"] if isinstance(key[0], str) and key[0].startswith(x["name"] + "."))
            if o["kind"] == "compact" and len(key) == 2 and isinstance(key[1], int):
                continue                                    # checked above
            if o["kind"] == "arr" and len(key) == 2 and isinstance(key[1], int) and key[1] not in [m["sub"] for m in o["members"]]:
                continue                                    # made from the array template: only `in` is demanded
            if isinstance(res, Err):
                return ("lookup_fails", f"od{key!r} raised {res!r}")
            val, same = res
            if len(key) == 1 and not (isinstance(key[0], str) and key[0] != o["name"]):
                if val != [o["index"], S(o["name"])] or same is not True:
                    return ("lookup_wrong", f"od{key!r} reached {val!r} (same object: {same})")
            else:
                mname = key[1] if len(key) == 2 else key[0][len(o["name"]) + 1:]
                if o["kind"] == "compact":
                    sub = next(int(sb) for sb, nm in o["names"].items() if nm == mname)
                else:
                    sub = mname if isinstance(mname, int) else next(m["sub"] for m in o["members"] if m["name"] == mname)
                g = vd(val)
                if (g["index"], g["sub"]) != (o["index"], sub) or same is not True:
                    return ("lookup_wrong", f"od{key!r} reached ({g['index']:#x}, {g['sub']}) (same object: {same}), expected sub {sub}")
    return None


def oracle(c, o):
    k = c["kind"]
    if k == "imp":
        if isinstance(o, Err):
            sparse = any(x["kind"] == "compact" and x["names"] is not None and len(x["names"]) < x["n"] for x in c["desc"]["objects"])
            if sparse and "No option" in o.text:
                return ("compact_sparse_namelist_raises", f"import of a well-formed file raised {o!r}")
            return ("import_raises", f"import of a well-formed file raised {o!r}")
        tok_ok, dump, lookups = full_obs(o)[:3]
        if not tok_ok:
            return None     # text layer surprise: reported through the correspondence, not a property failure
        return check_dictionary(c["desc"], c.get("nid"), dump, lookups, lookup_keys(c["desc"]))
    if k == "val" and "sem" in c:
        e = c["sem"]
        e = [e[1], e[2]] if isinstance(e, list) and e and e[0] == "flt" else e
        if o != e:
            return ("value_wrong", f"data type 0x{c['dt']:X} {c['key']}={c['text']!r} (node id {c.get('nid')}): imported {o!r}, means {e!r}")
    return None


# ------------------------------------------------------------------ Gallina printing
KNOWN_KEYS = {"ParameterName", "ObjectType", "DataType", "AccessType", "DefaultValue", "ParameterValue", "PDOMapping",
              "LowLimit", "HighLimit", "StorageLocation", "Factor", "Unit", "Description", "SubNumber", "CompactSubObj",
              "NrOfEntries", "SupportedObjects"}


def gs(t):
    if t in KNOWN_KEYS: return {"ParameterName": "k_PName", "ParameterValue": "k_PValue"}.get(t, "k_" + t)
    return gzlist([ord(ch) for ch in t])


def gdoc(doc):
    return glist(["mk_sec " + gs(sec) + " " + glist(["mk_kv " + gs(k) + " " + gs(v) for k, v in kv]) for sec, kv in doc])


def gkey(k): return f"KI {gz(k)}" if isinstance(k, int) else f"KS {gs(k)}"


def gkeys(keys):
    return glist([f"key1 ({gkey(k[0])})" if len(k) == 1 else f"key2 ({gkey(k[0])}) ({gkey(k[1])})" for k in keys])


FRAME_ONLY = ("FileInfo", "MandatoryObjects", "OptionalObjects", "ManufacturerObjects")
SPELLINGS = {"dec": "SpDec", "hex": "(SpHex false false 0)", "HEX": "(SpHex true false 0)", "hexl": "(SpHex false true 0)",
             "hex4": "(SpHex false false 4)"}


def gsp(sp): return SPELLINGS[sp]


def glimit(v, sp):
    if v is None: return "None"
    ls = {"twos": "(LTwos false false 0)", "twosl": "(LTwos false true 0)"}.get(sp) or f"(LPlain {gsp(sp)})"
    return f"(lim {gz(v)} {ls})"


def gdvalue(d):
    if d is None: return "None"
    if "int" in d: return f"(Some (DInt {gz(d['int'])} {gsp(d['sp'])}))"
    if "rel" in d:
        post, spaces = {"pre": (False, False), "post": (True, False), "pre_sp": (False, True), "post_sp": (True, True)}[d["form"]]
        return f"(Some (DRel {gz(d['rel'])} {gsp(d['sp'])} {gbool(post)} {gbool(spaces)}))"
    if "str" in d: return f"(Some (DStr {gs(d['str'])}))"
    if "hex" in d: return f"(Some (DBytes {gzlist(d['bytes'])} {gbool(d['hex'] != d['hex'].lower())}))"
    if "flt" in d: return f"(Some (DFloat ({gz(d['flt'][0])}, {gz(d['flt'][1])}) {gs(d['text'])}))"
    raise ValueError(d)


def gsopt(t): return "None" if t is None else f"(Some {gs(t)})"


def gvdesc(v, name=None):
    pdo = "None" if v.get("pdo") is None else f"(sp_opt {gbool(v['pdo'])} {gsp(v.get('pdo_sp', 'dec'))})"
    fac = "None" if v.get("factor") is None else f"(fac {gz(v['factor'][0])} {gz(v['factor'][1])} {gs(v['factor_text'])})"
    return (f"(mkVd {gs(v['name'] if name is None else name)} {gz(v['sub'])} {gz(v['dt'])} {gsp(v.get('dt_sp', 'hex4'))} {gs(v['access'])} {pdo} "
            f"{gdvalue(v.get('default'))} {gdvalue(v.get('pvalue'))} {glimit(v.get('low'), v.get('low_sp', 'dec'))} "
            f"{glimit(v.get('high'), v.get('high_sp', 'dec'))} {gsopt(v.get('storage'))} {fac} {gsopt(v.get('unit'))} {gsopt(v.get('descr'))})")


def gddesc(d):
    objs = []
    for o in d["objects"]:
        lo = gbool(o.get("sec_case", "upper") == "lower")
        k = o["kind"]
        if k in ("var", "domain"):
            ot = "None" if o.get("objtype_sp") is None else f"(Some {gsp(o['objtype_sp'])})"
            objs.append(f"DVar {gz(o['index'])} {lo} {ot} {gbool(k == 'domain')} {gvdesc(o['var'], o['name'])}")
        elif k in ("arr", "rec"):
            objs.append(f"DCont {'KArr' if k == 'arr' else 'KRec'} {gz(o['index'])} {lo} {gs(o['name'])} {gsopt(o.get('storage'))} "
                        f"{gsp(o.get('objtype_sp') or 'hex')} {gbool(o.get('sub_kw', 'sub') == 'Sub')} "
                        f"{gbool(o.get('sub_case', 'upper') == 'lower')} {glist([gvdesc(m) for m in o['members']])}")
        else:
            names = "None" if o.get("names") is None else "(Some " + glist(
                [f"nm {int(sb)} {gs(n)}" for sb, n in sorted(o["names"].items(), key=lambda p: int(p[0]))]) + ")"
            objs.append(f"DCompact {gz(o['index'])} {lo} {gsp(o.get('objtype_sp') or 'hex')} {gvdesc(o['var'], o['name'])} {gz(o['n'])} {names}")
    if d.get("devinfo") is None:
        di = "None"
    else:
        props = []
        for k, t in W.DEVINFO_KEYS:
            if k in d["devinfo"]:
                val = d["devinfo"][k]
                sp = gsp(d.get("devinfo_sp", {}).get(k, "dec"))
                props.append(f"di {gs(k)} " + (f"(DiStr {gs(val)})" if t is str else f"(DiBool {gbool(val)} {sp})" if t is bool
                                                 else f"(DiInt {gz(val)} {sp})"))
        baud = [f"bd {r} {gbool(bool(d['baud'][str(r)]))}" for r in W.STD_RATES if str(r) in d.get("baud", {})]
        di = f"(devinfo_of {glist(props)} {glist(baud)})"
    if d.get("commissioning"):
        n = "None" if d.get("file_node_id") is None else f"(nid_sp {gz(d['file_node_id'])} {gsp(d.get('file_node_id_sp', 'dec'))})"
        comm = f"(comm_of {n} {gopt(d.get('baudrate_kbit'))})"
    else:
        comm = "None"
    cm = "None" if d.get("comments") is None else "(Some " + glist([gs(l) for l in d["comments"]]) + ")"
    t = d.get("tail") or [False, False, False]
    return f"(mkDd {gbool(bool(d.get('extra_sections')))} {di} {comm} {cm} {glist(objs)} (tail_of {gbool(t[0])} {gbool(t[1])} {gbool(t[2])}))"


def coq_case(c):
    k = c["kind"]
    if k == "imp" and c.get("via") == "desc":
        return f"RDesc {gddesc(c['desc'])} {gopt(c.get('nid'))} {gkeys(lookup_keys(c['desc']))}"
    if k == "imp":
        return f"RC (CImport {gdoc(W.tokens(c['desc']))} {gopt(c.get('nid'))} {gkeys(lookup_keys(c['desc']))})"
    if k == "raw":
        return f"RC (CImport {gdoc(c['doc'])} {gopt(c.get('nid'))} {gkeys(c.get('keys', []))})"
    if k == "val":
        if c["key"] in ("LowLimit", "HighLimit"): return f"RC (CLimit {gz(c['dt'])} {gs(c['text'])})"
        if c["key"] == "Factor": return f"RC (CFactor {gs(c['text'])})"
        return f"RC (CConvert {gopt(c.get('nid'))} {gz(c['dt'])} {gs(c['text'])})"
    raise ValueError(k)


def nontrivial(c):
    if c["kind"] == "imp": return len(c["desc"]["objects"]) >= 1
    if c["kind"] == "raw": return len(c["doc"]) >= 1
    return c["text"] not in ("0", "")


# ------------------------------------------------------------------ generators
def val_cases(rng, tier):
    out = []
    n_rand = {"quick": 3, "thorough": 30, "search": 10}[tier]
    sps = ["dec", "hex", "HEX", "hexl", "hex4"]
    for dt, w in W.SIGNED.items():
        lo, hi = -(1 << (w - 1)), (1 << (w - 1)) - 1
        vals = [lo, lo + 1, -2, -1, 0, 1, hi - 1, hi] + [rng.randint(lo, hi) for _ in range(n_rand)]
        for v in vals:
            for key in ("LowLimit", "HighLimit"):
                for sp in ("dec", "twos", "twosl") + (("hex",) if v >= 0 else ()):
                    out.append(dict(kind="val", dt=dt, key=key, text=W.spell(v, sp, w), sem=v))
            for sp in ("dec", "hex", "hexl"):
                out.append(dict(kind="val", dt=dt, key=rng.choice(["DefaultValue", "ParameterValue"]), text=W.spell(v, sp), sem=v,
                                nid=rng.choice([None, 5])))
        # sign-conversion threshold from both sides, as unsigned hex
        for u in (hi, hi + 1, (1 << w) - 1, 0):
            out.append(dict(kind="val", dt=dt, key="LowLimit", text="0x%X" % u, sem=u if u <= hi else u - (1 << w)))
    for dt, w in W.UNSIGNED.items():
        vals = [0, 1, (1 << (w - 1)) - 1, 1 << (w - 1), (1 << w) - 1] + [rng.randrange(1 << w) for _ in range(n_rand)]
        for v in vals:
            sp = rng.choice(sps)
            out.append(dict(kind="val", dt=dt, key=rng.choice(["LowLimit", "HighLimit"]), text=W.spell(v, sp), sem=v))
            out.append(dict(kind="val", dt=dt, key="DefaultValue", text=W.spell(v, rng.choice(sps)), sem=v, nid=rng.choice([None, 1, 127])))
        for off in (0, 0x180, 0x200 + rng.randrange(0x100), 0x600):
            for nid in (1, 5, 127, rng.randrange(1, 128)):
                n = W.spell(off, rng.choice(sps))
                for text in ("$NODEID+" + n, n + "+$NODEID", "$NODEID + " + n, n + " + $NODEID"):
                    out.append(dict(kind="val", dt=dt, key=rng.choice(["DefaultValue", "ParameterValue"]), text=text, nid=nid, sem=off + nid))
    # BOOLEAN, TIME_OF_DAY
    for t, v in (("0", 0), ("1", 1), ("0x1", 1)):
        out.append(dict(kind="val", dt=W.BOOLEAN, key="DefaultValue", text=t, sem=v))
    # REAL
    for dt in (W.REAL32, W.REAL64):
        for f, texts in odgen.FLOATS:
            for t in texts:
                out.append(dict(kind="val", dt=dt, key="DefaultValue", text=t, sem=["flt", f[0], f[1]]))
                out.append(dict(kind="val", dt=0x07, key="Factor", text=t, sem=["flt", f[0], f[1]]))
    # text and byte strings
    for t in ("abc", "a=b", "50 % x", "$NODEID+1", "0x10", ""):
        for dt in (W.VISIBLE, W.UNICODE):
            out.append(dict(kind="val", dt=dt, key="DefaultValue", text=t, nid=5))
    for t in ("", "00", "0aFF", "0A 0b", "0a0", "xy", "0a 0", "ABCDEF0123456789"):
        for dt in (W.OCTET, W.DOMAIN):
            out.append(dict(kind="val", dt=dt, key="DefaultValue", text=t))
    # spellings outside the writer's repertoire: what the code does with them (model only)
    odd = ["012", "00", "0_0", "0x_1f", "1_000", "_1", "1_", "+5", "-0X1F", "0b101", "0o17", "0x", "1__0", "0x-5", "-0x5",
           "--5", "+-5", "0xG", "1e3", "1.5", "$NODEID", "$NODEID+", "+$NODEID+5", "$NODEID+$NODEID+1", "$nodeid+3",
           "$NODEID-1", "5+$NODEID+6", "$NODEID5", "0x 10", "- 5", "0B11", "0O7", "0x1_F", "00x1", "9" * 30, "-" + "F" * 20]
    for t in odd:
        for nid in (None, 7):
            out.append(dict(kind="val", dt=0x07, key="DefaultValue", text=t, nid=nid))
        out.append(dict(kind="val", dt=0x04, key="LowLimit", text=t))
        out.append(dict(kind="val", dt=0x06, key="HighLimit", text=t))
    for t in ["1e", "e5", ".", "+.5e1", "1.5f", "5.", "1E+05", "-0.0", "12345678901234.5", "25e-2", "--1", "1e+", "0x10", "1 5"]:
        out.append(dict(kind="val", dt=0x07, key="Factor", text=t))
        out.append(dict(kind="val", dt=W.REAL64, key="DefaultValue", text=t))
    # limits on data types that are not signed integers, unknown signed-looking types
    for dt in (W.BOOLEAN, W.REAL32, W.VISIBLE, W.DOMAIN, 0x0C, 0x40):
        out.append(dict(kind="val", dt=dt, key="LowLimit", text="0xFF"))
    return out


def mutate_doc(doc, rng):
    """a slightly damaged or unusual token document (model-only cases)"""
    doc = [[s_, [list(p) for p in kv]] for s_, kv in doc]
    m = rng.randrange(12)
    obj = [i for i, (s_, _) in enumerate(doc) if len(s_) >= 4 and all(ch in "0123456789abcdefABCDEF" for ch in s_[:4])]
    if not obj: return doc
    i = rng.choice(obj)
    sec, kv = doc[i]
    if m == 0: kv[:] = [p for p in kv if p[0] != rng.choice(kv)[0]]            # drop a key
    elif m == 1: doc.pop(i)                                                  # drop a section (maybe a parent)
    elif m == 2: doc.append(doc.pop(i))                                      # move it to the end
    elif m == 3: doc.insert(0, doc.pop(i))                                   # sub-section before its parent
    elif m == 4: doc[i][0] = sec.swapcase()
    elif m == 5: doc[i][0] = sec.replace("sub", "|ub").replace("Sub", "SUB")
    elif m == 6: kv.append(["ObjectType", rng.choice(["0", "5", "6", "x", "0x9", "8"])]) if not any(p[0] == "ObjectType" for p in kv) else None
    elif m == 7:
        for p in kv:
            if p[0] in ("DataType", "PDOMapping", "DefaultValue", "LowLimit"): p[1] = rng.choice(["", "zz", "012", "0x40", "0xA0"])
    elif m == 8: doc.append([sec[:4] + "Name", [["NrOfEntries", rng.choice(["2", "0", "x", "0x2", "-1"])], ["1", "n1"], ["2", "n2"]]])
    elif m == 9: doc.append([sec[:4].lower() if sec[:4] != sec[:4].lower() else sec[:4].upper(), kv])     # same index twice
    elif m == 10: doc.append(["A0sub1", [["DefaultValue", "0x0007"]]]); kv.append(["Note", "x"])
    elif m == 11: doc.append(["DummyUsage", [["Dummy%04d" % k, rng.choice(["0", "1"])] for k in range(1, 8)]])
    return doc


def hand_docs():
    """corner documents, model-only (the code's behaviour on input the property does not quantify over)"""
    var = lambda name, dt="0x0007", **kw: [["ParameterName", name], ["DataType", dt], ["AccessType", "rw"]] + [[k, v] for k, v in kw.items()]
    docs = []
    docs.append(([["2000", [["ParameterName", "Rec"], ["ObjectType", "9"]]]], [[0x2000], ["Rec"]]))                 # empty record by name
    docs.append(([["2000", [["ParameterName", "Max. cur"], ["ObjectType", "9"]]], ["2000sub0", var("n")], ["2000sub1", var("Val")]],
                 [["Max. cur.Val"], ["Max. cur", "Val"], [0x2000, 1], ["Max"]]))                                  # dotted parent name
    docs.append(([["2000", [["ParameterName", "A"], ["ObjectType", "9"]]], ["2000sub1", var("B.C")], ["2001", var("A.B.C")]],
                 [["A.B.C"], ["A", "B.C"], ["A.B"]]))
    docs.append(([["2000", var("same")], ["2001", var("same")]], [["same"], [0x2000], [0x2001]]))                    # duplicate names
    docs.append(([["2000", [["ParameterName", "R"], ["ObjectType", "9"]]], ["2000sub1", var("m")], ["2000sub2", var("m")],
                  ["2000sub01", var("again")]], [["R.m"], [0x2000, 1], [0x2000, 2], ["R", "again"]]))
    docs.append(([["100a", var("x")], ["100A", var("y")]], [[0x100A], ["x"], ["y"]]))                                 # one index, two sections
    docs.append(([["2000", var("v")], ["2000sub1", var("w")]], [[0x2000], [0x2000, 1]]))                              # sub-section of a variable
    docs.append(([["2000sub1", var("w")]], []))                                                                       # orphan
    docs.append(([["2000", [["ParameterName", "arr"], ["ObjectType", "8"]]], ["2000sub0", var("n", "5")], ["2000sub1", var("e", PDOMapping="1", DefaultValue="7")]],
                 [[0x2000, 1], [0x2000, 2], [0x2000, 255], [0x2000, 256], [0x2000, 0], ["arr", "e_2"], ["arr.e"]]))       # array template
    docs.append(([["2000", [["ParameterName", "arr"], ["ObjectType", "8"]]], ["2000sub0", var("n", "5")]], [[0x2000, 3]]))  # template missing
    docs.append(([["1003", var("Err", CompactSubObj="3", ObjectType="8", DefaultValue="$NODEID+1", PDOMapping="1")],
                  ["1003Name", [["NrOfEntries", "3"], ["2", "two"]]]], [[0x1003, 1], [0x1003, 2], [0x1003, 3], ["Err", "Err"], ["Err.two"]]))
    docs.append(([["1003", var("Err", ObjectType="8")], ["1003Name", [["NrOfEntries", "3"], ["2", "two"]]]], []))      # name list, no element 1
    docs.append(([["1003", var("Err")], ["1003NameX", [["NrOfEntries", "1"], ["1", "a"]]]], []))                       # name list of a variable
    docs.append(([["2000", var("v", "0xA0")], ["A0sub1", [["DefaultValue", "0x0004"]]]], [[0x2000]]))                  # CANFestival indirection
    docs.append(([["2000", var("v", "0xA0")]], [[0x2000]]))
    docs.append(([["2000", var("v", "0xA0")], ["A0sub1", [["x", "1"]]]], []))
    docs.append(([["DummyUsage", [["Dummy%04d" % k, "1" if k in (2, 5) else "0"] for k in range(1, 8)]], ["2000", var("v")]],
                 [[2], ["Dummy0005"], [0x2000]]))
    docs.append(([["dummyusage", [["Dummy0001", "1"]]]], []))
    docs.append(([["Comments", [["Lines", "2"], ["Line1", "a"]]]], []))
    docs.append(([["Comments", [["Lines", "0x2"], ["Line1", "a"], ["Line2", ""]]], ["DeviceInfo", [["Granularity", "0x08"], ["LSS_Supported", "2"], ["BaudRate_50", "7"], ["BaudRate_33", "1"]]],
                  ["DeviceComissioning", [["NodeID", "0x10"], ["Baudrate", "0"]]], ["2000", var("v", DefaultValue="$NODEID+1")]], [[0x2000]]))
    docs.append(([["DeviceComissioning", [["NodeID", ""], ["Baudrate", "0x10"]]]], []))
    docs.append(([["DeviceInfo", [["VendorNumber", "abc"]]]], []))
    docs.append(([["2000", var("v")], ["2000", var("w")]], []))                                                        # duplicate section (parser error)
    docs.append(([["2000", var("v", AccessType="ro")]], []))                                                           # duplicate key
    docs.append(([["2000", [["ParameterName", "d"], ["ObjectType", "2"], ["DataType", "0xF"], ["AccessType", "RW"], ["DefaultValue", "0a0b"]]]], [[0x2000]]))
    return docs


def gen_cases(rng, tier):
    cases = []
    n_docs = {"quick": 110, "thorough": 2000, "search": 250}[tier]
    for i in range(n_docs):
        size = rng.choice(["small", "normal", "normal", "large"] if i % 10 else ["large"])
        desc = odgen.gen_desc(rng, "written", size)
        fid = desc.get("file_node_id") if desc.get("commissioning") else None
        nid = rng.choice([None, None, 5, rng.randrange(1, 128)] + ([fid] if fid else []))
        if i % 2: desc["shuffle"] = None          # the Gallina writer knows head / tail placement only
        cases.append(dict(kind="imp", desc=desc, style=rng.randrange(3), nid=nid, via="desc" if i % 2 else "tokens",
                          src="file" if rng.random() < 0.15 else "stream",
                          suffix=rng.choice([".eds", ".dcf", ".EDS", ".Dcf"]) if rng.random() < 0.3 else "." + desc["doc"]))
    cases += val_cases(rng, tier)
    if tier != "search":
        for doc, keys in hand_docs():
            for nid in (None, 3):
                cases.append(dict(kind="raw", doc=doc, nid=nid, keys=keys))
        for i in range({"quick": 90, "thorough": 1200}[tier]):
            desc = odgen.gen_desc(rng, "written", "small")
            cases.append(dict(kind="raw", doc=mutate_doc(W.tokens(desc), rng), nid=rng.choice([None, 9]), keys=lookup_keys(desc)[:12]))
    rng.shuffle(cases)          # spread the long documents over the case files (which are evaluated in parallel)
    return cases


def shrink(c):
    if c["kind"] != "imp": return
    d = c["desc"]
    objs = d["objects"]
    for i in range(len(objs)):
        if len(objs) > 1:
            yield dict(c, desc=dict(d, objects=objs[:i] + objs[i + 1:]))
    for i, o in enumerate(objs):
        if o["kind"] in ("arr", "rec") and len(o["members"]) > 2:
            for j in range(1, len(o["members"])):
                o2 = dict(o, members=o["members"][:j] + o["members"][j + 1:])
                yield dict(c, desc=dict(d, objects=objs[:i] + [o2] + objs[i + 1:]))
    if d.get("devinfo"): yield dict(c, desc=dict(d, devinfo={}, baud={}))
    if d.get("comments"): yield dict(c, desc=dict(d, comments=[]))
    if d.get("extra_sections"): yield dict(c, desc=dict(d, extra_sections=False))
    if c.get("style"): yield dict(c, style=0)
    if c.get("src") == "file": yield dict(c, src="stream")
