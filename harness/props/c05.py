"""C05 - PDO variables occupy exactly their mapped bits."""
import logging, math, types
from vlib.obs import Err, guarded, gz, gzlist, gnat, glist
from props.c04 import INT_TYPES, BOOLEAN, REAL32, REAL64, REALS, bits_to_float, float_to_bits, rng_of

logging.disable(logging.CRITICAL)
PROP = "C05"
MODEL_VO = ["theories/Model/Pdo.vo"]
COQ_IMPORTS = "From CV Require Import Model.Codec Model.Pdo."
COQ_RUN = "run_pdo"
ANCHORS = [("canopen.pdo.base", "PdoVariable.get_data"), ("canopen.pdo.base", "PdoVariable.set_data"), ("canopen.pdo.base", "PdoMap.add_variable"), ("canopen.pdo.base", "PdoMap._update_data_size"), ("canopen.variable", "Variable.raw")]
COQ_CASE_TYPE = "pdo_case"
RULE = ("case = a PDO layout (list of (type, bit length), total <= 64), an initial frame and a sequence of reads / writes of "
        "mapped variables; every integer type at every bit offset it can take, BOOLEAN as one bit, sub-byte fields of the 8-bit "
        "types, REAL32/64; field values: all 2^len for short fields (sampled in quick), most negative / -1 / 0 / 1 / max and "
        "random above; out-of-range writes; non-trivial = layout with at least one field that is unaligned or not a whole "
        "number of bytes; distinct by canonical JSON")
TRUSTED = ["modelled, not verified: CPython int.from_bytes / int.to_bytes, bytearray slice assignment (modelled in Gallina, tied by correspondence)"]
ASSUMPTIONS = ["REAL32/REAL64 values are compared as IEEE-754 bit patterns; NaN patterns are not read back through float"]

U8, I8, U16, U32 = 0x05, 0x02, 0x06, 0x07


def type_bits(dt):
    if dt in INT_TYPES: return INT_TYPES[dt][1]
    return {BOOLEAN: 8, REAL32: 32, REAL64: 64}[dt]


def build(layout, pre=None):
    import canopen
    from canopen import objectdictionary as odm
    from canopen.pdo.base import PdoMap
    od = odm.ObjectDictionary()
    for i, (dt, ln) in enumerate(layout):
        v = odm.ODVariable(f"v{i}", 0x2000 + i, 0)
        v.data_type = dt
        od.add_object(v)
    node = types.SimpleNamespace(object_dictionary=od)
    pdo_node = types.SimpleNamespace(node=node, network=None)
    m = PdoMap(pdo_node, None, None)
    if pre is not None:
        # an earlier mapping of the same objects (other lengths), un-mapped again with clear()
        # (entries are [object number, length]; an object may be mapped more than once)
        for k, ln in pre:
            m.add_variable(0x2000 + k, 0, ln)
        m.clear()
    for i, (dt, ln) in enumerate(layout):
        # an object mapped with its own length is added without an explicit length
        m.add_variable(0x2000 + i, 0, None if (ln == type_bits(dt) and dt != BOOLEAN) else ln)
    return m


def impl(c):
    def run():
        m = build(c["layout"], c.get("pre"))
        out = [len(m.data), [v.offset for v in m.map]]
        if c.get("overflow"):
            # one more object is mapped that does not fit into 64 bits (the library only warns): whatever the
            # map then contains, the frame must be exactly as long as the mapped bits need and the offsets cumulative
            k, ln = c["overflow"]
            m.add_variable(0x2000 + k, 0, ln)
            total = sum(v.length for v in m.map)
            offs, acc = [], 0
            for v in m.map:
                offs.append(acc); acc += v.length
            if len(m.data) != (total + 7) // 8 or [v.offset for v in m.map] != offs or m.length != total:
                raise RuntimeError(f"after an overflowing add_variable: {len(m.map)} entries / {total} bits mapped, "
                                   f"length attribute {m.length}, frame of {len(m.data)} bytes, offsets {[v.offset for v in m.map]}")
        m.data = bytearray(c["frame"])
        for op in c["ops"]:
            var = m.map[op[1]]
            dt = c["layout"][op[1]][0]
            if op[0] == "r":
                def rd():
                    r = var.raw
                    if isinstance(r, float):
                        eb, mb = REALS[dt]
                        if math.isnan(r):   # NaN payloads do not survive float(): take the bytes read
                            return [int.from_bytes(bytes(var.data), "little")]
                        return [float_to_bits(r, eb, mb)]
                    return int(r) if isinstance(r, bool) else r
                out.append(guarded(rd))
            else:
                if op[0] == "wf":
                    eb, mb = REALS[dt]
                    val = bits_to_float(op[2], eb, mb)
                else:
                    val = op[2]
                def wr():
                    var.raw = val
                    return None
                out.append(guarded(wr))
        out.append(bytes(m.data))
        return out
    return guarded(run)


def oracle(c, o):
    layout = c["layout"]
    if isinstance(o, Err):
        return ("pdo_crash", f"{o!r}")
    total = sum(ln for _, ln in layout)
    offs, acc = [], 0
    for _, ln in layout:
        offs.append(acc)
        acc += ln
    if o[0] != (total + 7) // 8:
        return ("frame_length", f"frame length {o[0]} for {total} mapped bits")
    if o[1] != offs:
        return ("offsets", f"offsets {o[1]} expected {offs}")
    nbytes = len(c["frame"])
    F = int.from_bytes(bytes(c["frame"]), "little")
    for op, res in zip(c["ops"], o[2:-1]):
        k = op[1]
        dt, ln = layout[k]
        off = offs[k]
        mask = (1 << ln) - 1
        field = (F >> off) & mask
        where = f"layout {layout} entry {k} (type 0x{dt:X}, {ln} bits at offset {off})"
        if op[0] == "r":
            if dt in INT_TYPES:
                exp = field - (1 << ln) if INT_TYPES[dt][0] and field >> (ln - 1) else field
            elif dt == BOOLEAN:
                exp = 1 if field else 0
            else:
                eb, mb = REALS[dt]
                if math.isnan(bits_to_float(field, eb, mb)):
                    continue
                exp = [field]
            if res != exp:
                kind = "aligned" if off % 8 == 0 and ln % 8 == 0 else ("subbyte" if ln < 8 else "unaligned")
                return (f"pdo_read_{kind}", f"{where}: frame {F.to_bytes(nbytes, 'little').hex()} read {res!r}, field value is {exp!r}")
        else:
            if op[0] == "wf":
                v = op[2]
                ok = True
            else:
                v = op[2]
                if dt in INT_TYPES:
                    lo, hi = rng_of(*INT_TYPES[dt])
                    ok = lo <= v <= hi
                else:
                    ok = True
                    v = 1 if v else 0
            if ok:
                if res is not None:
                    kind = "aligned" if off % 8 == 0 and ln % 8 == 0 else ("subbyte" if ln < 8 else "unaligned")
                    return (f"pdo_write_{kind}_rejected", f"{where}: writing {op[2]} gave {res!r}")
                F = (F & ~(mask << off)) | ((v & mask) << off)
            elif not isinstance(res, Err):
                return ("pdo_write_out_of_range_accepted", f"{where}: value {v} accepted")
    final = o[-1]
    if final != F.to_bytes(nbytes, "little"):
        return ("pdo_write_frame", f"layout {layout} ops {c['ops']}: final frame {final.hex() if isinstance(final, bytes) else final!r}, "
                                   f"expected {F.to_bytes(nbytes, 'little').hex()} (start {bytes(c['frame']).hex()})")
    return None


def coq_case(c):
    es = glist([f"{{| e_dt := {gz(dt)}; e_len := {gz(ln)} |}}" for dt, ln in c["layout"]])
    ops = []
    for op in c["ops"]:
        if op[0] == "r": ops.append(f"OpRead {gnat(op[1])}")
        elif op[0] == "w": ops.append(f"OpWrite {gnat(op[1])} (PInt {gz(op[2])})")
        else: ops.append(f"OpWrite {gnat(op[1])} (PFloat {gz(op[2])})")
    return f"PdoCase {es} {gzlist(c['frame'])} {glist(ops)}"


def nontrivial(c):
    off = 0
    for dt, ln in c["layout"]:
        if off % 8 or ln % 8:
            return True
        off += ln
    return False


def pad_to(o):
    """fields occupying exactly o bits before the field of interest"""
    out = []
    while o >= 32: out.append([U32, 32]); o -= 32
    if o >= 16: out.append([U16, 16]); o -= 16
    if o >= 8: out.append([U8, 8]); o -= 8
    if o: out.append([U8, o])
    return out


def field_values(rng, dt, ln, n):
    if dt in INT_TYPES:
        signed, w = INT_TYPES[dt]
        lo, hi = rng_of(signed, w)
        vals = {0, 1, hi, lo, -1 if signed else hi - 1, (1 << (ln - 1)) - 1, (1 << (ln - 1)) % (hi + 1),
                ((1 << ln) - 1) % (hi + 1)}
        if signed:
            vals.update({-(1 << (ln - 1)) if ln <= w else lo, -(1 << (ln - 1)) + 1 if ln > 1 else -1, -2})
        vals = [v for v in vals if lo <= v <= hi]
        while len(vals) < n:
            vals.append(rng.randint(lo, hi))
        rng.shuffle(vals)
        return [("w", v) for v in vals[:n]]
    if dt == BOOLEAN:
        return [("w", 0), ("w", 1)][:max(2, n)]
    eb, mb = REALS[dt]
    # special patterns first: -0.0, +0.0, 1.0, -1.0, smallest subnormal, infinities (sign bit / zero handling)
    special = [1 << (eb + mb), 0, ((1 << (eb - 1)) - 1) << mb, (1 << (eb + mb)) | (((1 << (eb - 1)) - 1) << mb), 1,
               ((1 << eb) - 1) << mb, (1 << (eb + mb)) | (((1 << eb) - 1) << mb)]
    rng.shuffle(special)
    out = [("wf", b) for b in special[:max(1, n // 2)]]
    while len(out) < n:
        b = rng.getrandbits(1 + eb + mb)
        if not math.isnan(bits_to_float(b, eb, mb)):
            out.append(("wf", b))
    return out


def make_case(rng, layout, focus, nvals, all_values=False):
    total = sum(ln for _, ln in layout)
    nbytes = (total + 7) // 8
    frame = rng.choice([[rng.randrange(256) for _ in range(nbytes)], [255] * nbytes, [0] * nbytes])
    ops = [["r", k] for k in range(len(layout))]
    dt, ln = layout[focus]
    if all_values and dt in INT_TYPES:
        signed, w = INT_TYPES[dt]
        base = -(1 << (ln - 1)) if signed else 0
        vals = [("w", base + i) for i in range(1 << ln)]
    else:
        vals = field_values(rng, dt, ln, nvals)
    for kind, v in vals:
        ops.append([kind, focus, v])
        ops.append(["r", focus])
        others = [k for k in range(len(layout)) if k != focus]
        if others:
            ops.append(["r", rng.choice(others)])
    # an out-of-range write must be rejected and change nothing
    if dt in INT_TYPES and rng.random() < 0.5:
        lo, hi = rng_of(*INT_TYPES[dt])
        ops.append(["w", focus, rng.choice([hi + 1, lo - 1])])
    # finally write a neighbour and re-read everything
    if len(layout) > 1:
        k = rng.choice([k for k in range(len(layout)) if k != focus])
        for kind, v in field_values(rng, layout[k][0], layout[k][1], 1):
            ops.append([kind, k, v])
    ops += [["r", k] for k in range(len(layout))]
    c = dict(kind="pdo", layout=layout, frame=frame, ops=ops)
    if rng.random() < 0.35:
        # the same objects were mapped before with other lengths (sub-byte for the 8-bit types) and un-mapped again
        # (possibly a LONGER mapping than the final one: the frame must shrink again)
        pre = [[i, (rng.randrange(1, 9) if dt in (U8, I8) else type_bits(dt) if dt != BOOLEAN else ln)]
               for i, (dt, ln) in enumerate(layout)]
        total = sum(ln for _, ln in pre)
        while rng.random() < 0.5:
            i = rng.randrange(len(layout))
            ln = type_bits(layout[i][0]) if layout[i][0] != BOOLEAN else 1
            if total + ln > 64:
                break
            pre.append([i, ln]); total += ln
        if total <= 64:
            c["pre"] = pre
    if rng.random() < 0.15:
        # a further object that no longer fits into 64 bits
        i = rng.randrange(len(layout))
        ln = type_bits(layout[i][0]) if layout[i][0] != BOOLEAN else 1
        tot = sum(x for _, x in layout)
        if tot + ln > 64:
            c["overflow"] = [i, ln]
    return c


def gen_cases(rng, tier):
    cases = []
    dense = tier in ("thorough", "search")
    # every type at every offset it can take
    for dt in list(INT_TYPES) + [REAL32, REAL64]:
        w = type_bits(dt)
        offs = list(range(0, 64 - w + 1))
        if not dense:
            keep = {0, 1, 7, 8, 9, 64 - w} | set(rng.sample(offs, min(len(offs), 5)))
            offs = [o for o in offs if o in keep]
        for o in offs:
            layout = pad_to(o) + [[dt, w]]
            rest = 64 - o - w
            if rest > 0 and rng.random() < 0.7:
                layout.append(rng.choice([[U8, min(rest, rng.randrange(1, 9))], [I8, min(rest, rng.randrange(1, 9))], [BOOLEAN, 1]]))
            cases.append(make_case(rng, layout, len(pad_to(o)), 4 if not dense else 8))
    # sub-byte fields of the 8-bit types and BOOLEAN as one bit, at every offset
    for dt in (U8, I8, BOOLEAN):
        lens = [1] if dt == BOOLEAN else list(range(1, 9))
        for ln in lens:
            offs = list(range(0, 64 - ln + 1))
            if not dense:
                offs = sorted(set([0, 1, 7, 8, 63 - ln + 1] + rng.sample(offs, 4)))
            for o in offs:
                layout = pad_to(o) + [[dt, ln]]
                rest = 64 - o - ln
                if rest > 0:
                    layout.append(rng.choice([[U8, min(rest, rng.randrange(1, 9))], [I8, min(rest, rng.randrange(1, 9))]]))
                cases.append(make_case(rng, layout, len(pad_to(o)), 4, all_values=(dense or rng.random() < 0.3)))
    # random layouts of 1..8 entries
    for _ in range({"quick": 150, "thorough": 1500, "search": 800}[tier]):
        layout, total = [], 0
        for _ in range(rng.randrange(1, 9)):
            dt = rng.choice(list(INT_TYPES) + [BOOLEAN, BOOLEAN, REAL32, REAL64, U8, I8, U8, I8])
            w = type_bits(dt)
            ln = 1 if dt == BOOLEAN else (rng.randrange(1, 9) if dt in (U8, I8) else w)
            if total + ln > 64:
                continue
            layout.append([dt, ln])
            total += ln
        if not layout:
            layout = [[U8, 3]]
        cases.append(make_case(rng, layout, rng.randrange(len(layout)), 3))
    # fields up to 12 bits: all values (12-bit fields do not exist in the property's quantifier beyond 8-bit types
    # mapped sub-byte; 16-bit types carry 2^16 values which the thorough tier samples densely)
    if tier == "thorough":
        for dt in (0x03, 0x06):
            for o in (0, 3, 13, 48):
                layout = pad_to(o) + [[dt, 16]]
                for chunk in range(16):
                    c = make_case(rng, layout, len(pad_to(o)), 1)
                    signed, w = INT_TYPES[dt]
                    base = rng_of(signed, w)[0]
                    ops = []
                    for i in range(chunk * 4096, (chunk + 1) * 4096, 7):
                        ops += [["w", len(pad_to(o)), base + i], ["r", len(pad_to(o))]]
                    c["ops"] = ops
                    c["model"] = (chunk % 8 == 0)
                    cases.append(c)
    # mappings that fill the frame (or nearly), followed by one more object that does not fit
    U64 = 0x1B
    for layout, extra in ([[[U32, 32], [U16, 16], [U8, 8]], [1, 16]], [[[U64, 64]], [0, 64]], [[[U32, 32], [U32, 32]], [0, 32]],
                          [[[U16, 16], [U16, 16], [U16, 16], [U8, 4]], [0, 16]], [[[U8, 8]] * 7, [3, 16]],
                          [[[BOOLEAN, 1], [U32, 32], [U16, 16], [U8, 7]], [2, 16]]):
        layout = [list(e) for e in layout]
        if any(dt not in INT_TYPES and dt != BOOLEAN for dt, _ in layout):
            continue
        c = make_case(rng, layout, rng.randrange(len(layout)), 2)
        c.pop("pre", None)
        c["overflow"] = [extra[0] if extra[0] < len(layout) else 0, type_bits(layout[extra[0] if extra[0] < len(layout) else 0][0])]
        if sum(x for _, x in layout) + c["overflow"][1] > 64:
            cases.append(c)
    return cases


def shrink(c):
    ops = c["ops"]
    for i in range(len(ops)):
        yield dict(c, ops=ops[:i] + ops[i + 1:])
    if len(ops) > 4:
        yield dict(c, ops=ops[:len(ops) // 2])
        yield dict(c, ops=ops[len(ops) // 2:])
