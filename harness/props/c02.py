"""C02 - SDO server serves and stores object values exactly, in conformant CiA 301 frames.

Also holds the machinery shared with C06 (implementation runner, Gallina printer, oracle for
"run" cases): C06 quantifies over the same server.
"""
import copy, logging, struct
from vlib.obs import Err, Abort, guarded, gz, gzlist, gbytes, glist, gopt, gbool
from ref import sdo_ref_client as R

PROP = "C02"
ANCHORS = [('canopen.sdo.server', 'SdoServer'), ('canopen.node.local', 'LocalNode.get_data'), ('canopen.node.local', 'LocalNode.set_data'), ('canopen.node.local', 'LocalNode._find_object'), ('canopen.objectdictionary', 'ODArray.__getitem__'), ('canopen.objectdictionary', 'ODRecord.__getitem__'), ('canopen.objectdictionary', 'ODVariable.encode_raw')]
MODEL_VO = ["theories/Model/SdoServer.vo"]
COQ_IMPORTS = "From CV Require Import Model.Codec Model.RefClient Model.SdoServer."
COQ_RUN = "run_sdo"
COQ_CASE_TYPE = "sdo_case"
RULE = ("case = an object dictionary (variables, records, arrays; data type, access type, default, parameter value per "
        "entry), a read-callback table, a preset data_store and a list of operations on a freshly created LocalNode: raw "
        "request frames of 0..8 bytes fed to Network.notify, uploads and downloads (expedited with/without size, segmented "
        "with/without size) by the conformant reference client; observed: every frame the server sends, whether on_request "
        "raised, callback invocations per operation, final data_store, last_received_error. Value lengths 0..64 x the four "
        "value sources and their precedence, all data types, random dictionaries and histories. non-trivial = a case with a "
        "segmented transfer, a refused access or a raw frame; distinct by canonical JSON. Since round 3/4 also: raw-frame downloads with partly "
        "filled non-final segments, bursts of back-to-back raw uploads of synthesised array members of several arrays, write/read "
        "callbacks that refuse chosen values (store and next upload unchanged), run-time changes of default / parameter value")
EXHAUSTIVE = {"quick": False, "thorough": False}
EXPLANATION = ("value lengths 0..64 are enumerated exhaustively for every value source and download mode; the thorough tier adds "
               "lengths up to 10^4 and larger random histories")
TRUSTED = ["modelled, not verified: CPython struct / bytearray slicing as used by sdo/server.py (modelled in Gallina, tied by "
           "correspondence); ODVariable.encode_raw is the C04 model (Model/Codec.v)",
           "harness/ref/sdo_ref_client.py (Python reference client / response rules), tied to Model/RefClient.v by running both "
           "against implementation and model on the same cases"]
ASSUMPTIONS = ["the Coq model has no raising callbacks: cases with callbacks that refuse (raise SdoAbortedError / fail), that peek into data_store, or with run-time changes of default / parameter value are run through implementation + oracle only (model: False); callbacks do not keep references to the bytearray they are given",
               "frames have 1..8 bytes (a CAN frame with DLC 0 makes on_request raise struct.error: outside the property's quantifier, "
               "modelled and reported in notes/C02.md)",
               "the NMT write callback that LocalNode registers for 0x1017 is not modelled: generated dictionaries do not contain 0x1017",
               "REAL32/REAL64 values are given by their IEEE-754 bit patterns (no NaN)"]

NODE_ID = 5
logging.disable(logging.CRITICAL)


# ------------------------------------------------------------------ building the library objects
def py_value(v, dt):
    if v is None: return None
    if "i" in v: return v["i"]
    if "b" in v: return bytes(v["b"])
    if "s" in v: return "".join(chr(x) for x in v["s"])
    if "f" in v:
        eb, mb = R.REALS.get(dt, (11, 52))
        return R.bits_to_float(v["f"], eb, mb)
    raise ValueError(v)


def build_od(dic):
    from canopen.objectdictionary import ObjectDictionary, ODVariable, ODRecord, ODArray
    od = ObjectDictionary()
    def mk(name, idx, e):
        v = ODVariable(name, idx, e["sub"])
        v.data_type = e["dt"]
        v.access_type = e["acc"]
        v.default = py_value(e["default"], e["dt"])
        v.value = py_value(e["value"], e["dt"])
        return v
    for o in dic:
        idx = o["index"]
        if o["kind"] == "var":
            od.add_object(mk(f"o{idx:x}", idx, dict(o["subs"][0], sub=0)))
        else:
            c = (ODRecord if o["kind"] == "rec" else ODArray)(f"o{idx:x}", idx)
            for e in o["subs"]:
                c.add_member(mk(f"o{idx:x}_{e['sub']:x}", idx, e))
            od.add_object(c)
    return od


def make_net():
    """synchronous bus: records what the server sends"""
    import canopen
    class Net(canopen.Network):
        def __init__(self):
            super().__init__()
            self.sent = []
        def send_message(self, can_id, data, remote=False):
            self.sent.append((can_id, bytes(data)))
    return Net()


def make_node(c):
    net = make_net()
    node = net.create_node(NODE_ID, build_od(c["dict"]))
    log = []
    table = {}
    for i, s, v in reversed(c["rcb"]):
        table[(i, s)] = v
    rules = [list(x) for x in c.get("wcb", [])]
    peek = c.get("peek", False)
    def refuse(act):
        from canopen.sdo.exceptions import SdoAbortedError
        if "abort" in act:
            raise SdoAbortedError(act["abort"])
        raise ValueError("application callback failed")
    def rcb(index, subindex, od, **kw):
        log.append([0, index, subindex])
        v = table.get((index, subindex))
        if v is not None and ("abort" in v or "exc" in v):
            refuse(v)
        return None if v is None else py_value(v, od.data_type)
    def wcb(index, subindex, od, data, **kw):
        e = [1, index, subindex, bytes(data)]
        if peek:       # what the node holds while the callback runs (the callback may still refuse the write)
            old = node.data_store.get(index, {}).get(subindex)
            e.append(None if old is None else bytes(old))
        log.append(e)
        for i, s, m, act in rules:
            if (i, s) == (index, subindex) and (m is None or bytes(m) == bytes(data)):
                refuse(act)
    node.add_read_callback(rcb)
    node.add_write_callback(wcb)
    for i, s, b in reversed(c["store"]):
        node.data_store.setdefault(i, {})[s] = bytes(b)
    def step(frame):
        net.sent.clear()
        raised = False
        try:
            net.notify(0x600 + NODE_ID, bytearray(frame), 0.0)
        except Exception:  # noqa: BLE001 - the observation is that it raised into the receive path
            raised = True
        return [d for _, d in net.sent], raised
    return net, node, log, step


def impl(c):
    if c["kind"] == "run":
        return guarded(run_impl, c)
    return guarded(IMPL_EXTRA[c["kind"]], c)


IMPL_EXTRA = {}


def trace_obs(tr):
    """a trace of response frames is observed through its length, first frame and a polynomial hash of all bytes"""
    h = 7
    for f in tr:
        for b in [len(f)] + list(f):
            h = (h * 257 + b + 1) % 2305843009213693951
    return [len(tr), h, bytes(tr[0]) if tr else b""]


def c_kind(c, idx):
    return next(o["kind"] for o in c["dict"] if o["index"] == idx)


def run_impl(c):
    net, node, log, step = make_node(c)
    out = []
    for op in c["ops"]:
        n0 = len(log)
        if op[0] == "f":
            rs, raised = step(bytes(op[1]))
            out.append([list(rs), raised, log[n0:]])
        elif op[0] == "b":
            # raw frames fed back to back as a receive thread would: nothing is kept or allocated between two requests
            # (responses are copied into one bytearray), so objects created for one request are really gone at the next
            frames = [bytearray(f) for f in op[1]]
            n = len(frames)
            cnt, rz, lg, buf = [0] * n, [False] * n, [0] * (n + 1), bytearray()
            lg[0] = len(log)
            for k in range(n):
                net.sent.clear()
                try:
                    net.notify(0x600 + NODE_ID, frames[k], 0.0)
                except Exception:  # noqa: BLE001
                    rz[k] = True
                cnt[k] = len(net.sent)
                for _, d in net.sent:
                    buf.append(len(d))
                    buf.extend(d)
                lg[k + 1] = len(log)
            pos = 0
            for k in range(n):
                rs = []
                for _ in range(cnt[k]):
                    rs.append(bytes(buf[pos + 1:pos + 1 + buf[pos]]))
                    pos += 1 + buf[pos]
                out.append([rs, rz[k], log[lg[k]:lg[k + 1]]])
        elif op[0] == "od":
            o_ = node.object_dictionary[op[1]]
            v_ = o_ if c_kind(c, op[1]) == "var" else o_.subindices[op[2]]
            setattr(v_, op[3], py_value(op[4], v_.data_type))
            out.append([])
        elif op[0] == "u":
            r, tr = R.ref_upload(step, op[1], op[2])
            out.append([r] + trace_obs(tr) + [log[n0:]])
        elif op[0] == "d":
            r, tr = R.ref_download(step, op[1], op[2], bytes(op[3]), op[4])
            out.append([r] + trace_obs(tr) + [log[n0:]])
        else:
            raise ValueError(op)
    store = sorted((i, s, bytes(b)) for i, subs in node.data_store.items() for s, b in subs.items())
    return [out, [list(x) for x in store], node.sdo.last_received_error]


# ------------------------------------------------------------------ Gallina printing
def g_pyval(v):
    if v is None: return "None"
    if "i" in v: return f"(Some (PInt {gz(v['i'])}))"
    if "b" in v: return f"(Some (PBytes {gzlist(v['b'])}))"
    if "s" in v: return f"(Some (PStr {gzlist(v['s'])}))"
    if "f" in v: return f"(Some (PFloat {gz(v['f'])}))"
    raise ValueError(v)


def g_var(e):
    return f"(mkVar {gopt(e['dt'])} {gzlist([ord(ch) for ch in e['acc']])} {g_pyval(e['default'])} {g_pyval(e['value'])})"


def g_dict(dic):
    items = []
    for o in dic:
        if o["kind"] == "var":
            items.append(f"({gz(o['index'])}, OVar {g_var(o['subs'][0])})")
        else:
            ctor = "ORec" if o["kind"] == "rec" else "OArr"
            subs = glist([f"({gz(e['sub'])}, {g_var(e)})" for e in o["subs"]])
            items.append(f"({gz(o['index'])}, {ctor} {subs})")
    return glist(items)


def g_op(op):
    if op[0] == "f": return f"OpF {gzlist(op[1])}"
    if op[0] == "u": return f"OpU {gz(op[1])} {gz(op[2])}"
    if op[0] == "d": return f"OpD {gz(op[1])} {gz(op[2])} {gzlist(op[3])} {gz(op[4])}"
    raise ValueError(op)


def coq_case(c):
    if c["kind"] == "run":
        rcb = glist([f"({gz(i)}, ({gz(s)}, {g_pyval(v)[6:-1]}))" for i, s, v in c["rcb"]])
        st = glist([f"({gz(i)}, ({gz(s)}, {gzlist(b)}))" for i, s, b in c["store"]])
        return f"CRun {g_dict(c['dict'])} {rcb} {st} {glist([g_op(o) for o in flat_ops(c['ops'])])}"
    return COQ_EXTRA[c["kind"]](c)


COQ_EXTRA = {}


# ------------------------------------------------------------------ oracle (property text; independent of model and library)
def _writes(delta):
    return [(e[1], e[2], bytes(e[3])) for e in delta if e[0] == 1]


def _accepted(ref, w):
    """write-callback invocations that the application did not refuse"""
    return [(i, s, b) for i, s, b in w if ref.veto(i, s, b) is None]


def _peek_failure(ref, delta, where):
    """a write callback runs BEFORE the write takes effect (it may refuse it): the node still holds the old value"""
    for e in delta:
        if e[0] == 1 and len(e) >= 5:
            old = ref.store.get((e[1], e[2]))
            if e[4] != old:
                return ("callback_saw_write_already_stored",
                        f"{where}: while the write callback for {e[1]:04X}:{e[2]:02X} <- {bytes(e[3]).hex()} ran the node held "
                        f"{None if e[4] is None else bytes(e[4]).hex()}, value before the write: {None if old is None else old.hex()}")
    return None


def violation_sig(prefix, r):
    return f"{prefix}_{r.kind}"


class Tracker:
    """Which segmented transfer is running and which toggle its next segment must carry, as far as a
    bystander can tell from request/response pairs (idle = unknown / none: no demand).  For a download
    begun by a full 8-byte initiate frame and continued by full 8-byte segment frames it also keeps the
    multiplexer and the bytes transferred so far: CiA 301 lets EVERY download segment carry 0..7 data
    bytes (n = number of unused bytes), so the value is the concatenation of the 7-n data bytes of each."""

    def __init__(self):
        self.state = None          # None | ("up", t) | ("down", t, mux | None, bytes so far | None)
        self.up = None             # None | [mux, expected bytes, bytes served so far, toggle]: a raw-frame upload being judged

    def expect(self, req):
        """abort code that the standard demands for this request in the tracked state, or None"""
        ccs = req[0] // 32
        if ccs in (6, 7):
            return R.AB_COMMAND
        if self.state and ((ccs == 3 and self.state[0] == "up") or (ccs == 0 and self.state[0] == "down")):
            if (req[0] // 16) % 2 != self.state[1]:
                return R.AB_TOGGLE
        return None

    def completes_download(self, req):
        """(mux, data) if req is the final segment of a download whose every frame was followed, else None"""
        st = self.state
        if (st and st[0] == "down" and st[3] is not None and len(req) == 8 and req[0] // 32 == 0
                and (req[0] // 16) % 2 == st[1] and req[0] % 2 == 1):
            return st[2], st[3] + bytes(req[1:8 - (req[0] // 2) % 8])
        return None

    def reset(self):
        self.state = None
        self.up = None

    def judge_upload(self, req, rs, ref, where):
        """an upload driven by raw frames must serve exactly the entry's value: expedited payload, announced size and
        the concatenation of the segments.  Followed only while nothing but its own segment requests arrives."""
        ccs = req[0] // 32
        r = rs[0] if len(rs) == 1 and len(rs[0]) == 8 else None
        up, self.up = getattr(self, "up", None), None
        if r is None:
            return None
        def wrong(mux, got, exp):
            sig = "upload_empty_value_wrong" if len(exp) == 0 else "upload_wrong_bytes"
            if ref.veto(mux[0], mux[1], bytes(got)) is not None:
                sig = "refused_write_served"
            return (sig, f"{where}: raw-frame upload {mux[0]:04X}:{mux[1]:02X}: got {len(got)} bytes {bytes(got)[:24].hex()}, expected {len(exp)} bytes {exp[:24].hex()}")
        if ccs in (2, 5) and len(req) >= 4:
            mux = R.frame_mux(req)
            kind, exp = ref.expected_upload(*mux)
            if kind != "data":
                return None
            if r[0] == 0x80:
                return ("upload_refused", f"{where}: raw-frame upload {mux[0]:04X}:{mux[1]:02X} aborted with 0x{int.from_bytes(r[4:8], 'little'):08X}, expected {len(exp)} bytes {exp[:16].hex()}")
            if r[0] // 32 != 2:
                return None
            if (r[0] // 2) % 2 == 1:
                n = (r[0] // 4) % 4 if r[0] % 2 == 1 else 0
                if bytes(r[4:8 - n]) != exp:
                    return wrong(mux, r[4:8 - n], exp)
            else:
                if r[0] % 2 != 1:
                    return ("size_not_announced", f"{where}: initiate response {bytes(r).hex()}")
                if int.from_bytes(r[4:8], "little") != len(exp):
                    return ("upload_size_wrong", f"{where}: raw-frame upload {mux[0]:04X}:{mux[1]:02X}: announced {int.from_bytes(r[4:8], 'little')} bytes, the value has {len(exp)}: {bytes(r).hex()}")
                self.up = [mux, exp, b"", 0]
        elif ccs == 3 and up is not None and r[0] != 0x80 and r[0] // 32 == 0 and (req[0] // 16) % 2 == up[3]:
            mux, exp, got, t = up
            got = got + bytes(r[1:8 - (r[0] // 2) % 8])
            if r[0] % 2 == 1:
                if got != exp:
                    return wrong(mux, got, exp)
            elif len(got) >= len(exp) and got != exp[:len(got)] or len(got) > len(exp):
                return wrong(mux, got, exp)
            else:
                self.up = [mux, exp, got, 1 - t]
        return None

    def update(self, req, rs):
        ccs = req[0] // 32
        r = rs[0] if len(rs) == 1 and len(rs[0]) == 8 else None
        if (r is not None and r[0] == 0x80 and int.from_bytes(r[4:8], "little") == R.AB_TOGGLE and ccs == 0
                and self.state and self.state[0] == "down" and (req[0] // 16) % 2 != self.state[1]):
            # a segment refused for its toggle bit changes nothing: should the server go on accepting the segments of
            # this transfer (it need not), the value is still the concatenation of the ACCEPTED segments only
            return
        if r is None or r[0] == 0x80 or ccs not in (0, 1, 2, 3, 5) or len(req) < 4 and ccs in (1, 2, 5):
            self.state = None
        elif ccs in (2, 5):
            self.state = ("up", 0) if (r[0] // 2) % 2 == 0 else None
        elif ccs == 1:
            if (req[0] // 2) % 2 == 0:
                full = len(req) == 8
                self.state = ("down", 0, R.frame_mux(req) if full else None, b"" if full else None)
            else:
                self.state = None
        elif self.state and ((ccs == 3 and self.state[0] == "up") or (ccs == 0 and self.state[0] == "down")):
            done = (r[0] % 2 == 1) if ccs == 3 else (req[0] % 2 == 1)
            if done:
                self.state = None
            elif ccs == 3:
                self.state = ("up", 1 - self.state[1])
            else:
                buf = self.state[3]
                if buf is not None and len(req) == 8 and (req[0] // 16) % 2 == self.state[1]:
                    buf = buf + bytes(req[1:8 - (req[0] // 2) % 8])
                else:
                    buf = None
                self.state = ("down", 1 - self.state[1], self.state[2], buf)
        else:
            self.state = None


def flat_ops(ops):
    """a burst ["b", [frame, ...]] is a run of raw frames fed back to back (one observation per frame)"""
    out = []
    for op in ops:
        if op[0] == "b":
            out += [["f", f] for f in op[1]]
        else:
            out.append(op)
    return out


def oracle(c, o):
    return oracle_run(c, o, refusals=False)


def oracle_run(c, o, refusals):
    """refusals=False: what C02 states (exact bytes, one well-formed response, nothing raised);
    refusals=True: additionally what C06 states (the abort code of each refusal condition, nothing changed)."""
    if c["kind"] != "run":
        return ORACLE_EXTRA[c["kind"]](c, o)
    if isinstance(o, Err):
        return ("harness_crash", repr(o))
    ref = R.RefNode(copy.deepcopy(c["dict"]), c["rcb"], c["store"], c.get("wcb", []))
    cur = (0, 0)
    trk = Tracker()
    per_op, store, _last = o
    deferred = None
    for k, (op, ob) in enumerate(zip(flat_ops(c["ops"]), per_op)):
        where = f"op {k} {op[0]}"
        if op[0] == "od":
            # the application changes default / parameter value of a declared entry at run time
            for ob_ in ref.dic:
                if ob_["index"] == op[1]:
                    for e_ in ob_["subs"]:
                        if e_["sub"] == op[2] or ob_["kind"] == "var":
                            e_[op[3]] = op[4]
            trk.reset()
        elif op[0] == "f":
            rs, raised, delta = ob
            req = bytes(op[1])
            f = R.resp_wf(cur, req, rs, raised)
            if f is not None:
                return (f[0], f"{where}: {f[1]}")
            w = _writes(delta)
            wa = _accepted(ref, w)
            deferred = deferred or _peek_failure(ref, delta, where)
            if rs and rs[0][0] == 0x80 and wa:
                return ("aborted_request_wrote", f"{where}: request {req.hex()} was aborted but the write callback saw {w}")
            if refusals and len(req) >= 1:
                code = trk.expect(req)
                if code is not None:
                    got = int.from_bytes(rs[0][4:8], "little") if rs and rs[0][0] == 0x80 else None
                    if got != code:
                        sig = "wrong_toggle_code" if code == R.AB_TOGGLE else "unknown_command_code"
                        return (sig, f"{where}: request {req.hex()} (tracked transfer {trk.state}) -> {[x.hex() for x in rs]}, expected abort 0x{code:08X}")
            fin = trk.completes_download(req) if len(req) >= 1 else None
            if fin is not None and ref.expected_download(fin[0][0], fin[0][1], fin[1])[0] == "ok":
                # a segmented download driven by raw frames (segments may be partly filled anywhere)
                (fi, fs), fdata = fin
                fwhat = f"{where}: final segment {req.hex()} of a raw-frame download {fi:04X}:{fs:02X}, {len(fdata)} bytes {fdata[:24].hex()} in partly filled segments"
                aborted = bool(rs) and rs[0][0] == 0x80
                if ref.veto(fi, fs, fdata) is not None:
                    if not aborted:
                        return ("callback_refusal_ignored", f"{fwhat}: the write callback refused the value but the server confirmed the download")
                elif aborted:
                    return ("download_refused", f"{fwhat}: aborted with 0x{int.from_bytes(rs[0][4:8], 'little'):08X}")
                if w != [(fi, fs, fdata)]:
                    return ("segment_data_wrong", f"{fwhat}: write callbacks saw {[(i, s, b.hex()) for i, s, b in w]}")
            if len(req) >= 1:
                uf = trk.judge_upload(req, rs, ref, where)
                if uf is not None:
                    return uf
            for i, s, b in wa:
                ref.store[(i, s)] = b
            if len(req) >= 1:
                trk.update(req, rs)
            cur = R.next_mux(cur, req)
        elif op[0] == "u":
            r, ntr, _h, tr0, delta = ob
            idx, sub = op[1], op[2]
            trk.reset()
            what = f"{where}: upload {idx:04X}:{sub:02X}"
            if _writes(delta):
                return ("upload_invoked_write_callback", what)
            kind, exp = ref.expected_upload(idx, sub)
            if isinstance(r, Err):
                return (violation_sig("upload_violation", r), f"{what}: {R.VNAMES.get(r.kind, r.kind)}; {ntr} responses, first {tr0.hex()}")
            if kind == "data":
                if isinstance(r, Abort):
                    return ("upload_refused", f"{what}: aborted with {r!r}, expected {len(exp)} bytes {exp[:16].hex()}")
                if bytes(r) != exp:
                    sig = "upload_empty_value_wrong" if len(exp) == 0 else "upload_wrong_bytes"
                    if ref.veto(idx, sub, bytes(r)) is not None:
                        sig = "refused_write_served"      # bytes that the application's write callback rejected
                    return (sig, f"{what}: got {len(r)} bytes {bytes(r)[:24].hex()}, expected {len(exp)} bytes {exp[:24].hex()}")
                if ntr and tr0[0] & 1 != 1:
                    return ("size_not_announced", f"{what}: initiate response {tr0.hex()}")
            elif kind == "abort" and refusals:
                if not isinstance(r, Abort):
                    return ("read_not_refused", f"{what}: expected abort {sorted(hex(x) for x in exp)}, got {len(r)} bytes")
                if r.code not in exp:
                    return ("read_refusal_wrong_code", f"{what}: abort 0x{r.code:08X}, expected {sorted(hex(x) for x in exp)}")
            cur = (idx, sub)
        else:
            r, ntr, _h, tr0, delta = ob
            idx, sub, data, mode = op[1], op[2], bytes(op[3]), op[4]
            trk.reset()
            what = f"{where}: download {idx:04X}:{sub:02X} {len(data)} bytes mode {mode}"
            w = _writes(delta)
            kind, exp = ref.expected_download(idx, sub, data)
            if isinstance(r, Err):
                if r.kind == R.V_USAGE:
                    continue
                return (violation_sig("download_violation", r), f"{what}: {R.VNAMES.get(r.kind, r.kind)}; {ntr} responses, first {tr0.hex()}")
            deferred = deferred or _peek_failure(ref, delta, what)
            veto = ref.veto(idx, sub, data) if kind == "ok" else None
            if veto is not None:
                # the application's write callback rejects this value: the transfer must be aborted (with the
                # callback's code if it gave one) and the node must stay as it was
                if not isinstance(r, Abort):
                    return ("callback_refusal_ignored", f"{what}: the write callback refused the value but the transfer succeeded")
                if "abort" in veto and r.code != veto["abort"]:
                    return ("callback_refusal_wrong_code", f"{what}: abort 0x{r.code:08X}, the callback raised 0x{veto['abort']:08X}")
            elif kind == "ok":
                if isinstance(r, Abort):
                    return ("download_refused", f"{what}: aborted with {r!r}")
                if w != [(idx, sub, data)]:
                    return ("write_callback_wrong", f"{what}: write callbacks saw {w}")
                ref.store[(idx, sub)] = data
            elif refusals:
                if not isinstance(r, Abort):
                    return ("write_not_refused", f"{what}: expected abort {sorted(hex(x) for x in exp)}, transfer succeeded")
                if r.code not in exp:
                    return ("write_refusal_wrong_code", f"{what}: abort 0x{r.code:08X}, expected {sorted(hex(x) for x in exp)}")
                if w:
                    return ("refused_write_reached_callback", f"{what}: write callbacks saw {w}")
            else:
                # C02 says nothing about refusals; an aborted transfer must still have told the callbacks nothing
                wa = _accepted(ref, w)
                if isinstance(r, Abort) and wa:
                    return ("aborted_request_wrote", f"{what}: aborted with {r!r} but the write callback saw {w}")
                for i, s, b in wa:
                    ref.store[(i, s)] = b
            cur = (idx, sub)
    got = {(i, s): bytes(b) for i, s, b in store}
    if got != ref.store:
        diff = {k: (got.get(k), ref.store.get(k)) for k in set(got) | set(ref.store) if got.get(k) != ref.store.get(k)}
        refused = [k for k, (g, e) in diff.items() if g is not None and ref.veto(k[0], k[1], g) is not None]
        if refused:
            return ("refused_write_stored", f"data_store holds values that the write callback refused: { {k: diff[k] for k in refused} }")
        return ("store_differs_from_transfers", f"data_store vs accepted downloads: {diff}")
    return deferred


ORACLE_EXTRA = {}


def nontrivial(c):
    if c["kind"] != "run":
        return True
    for op in c["ops"]:
        if op[0] == "f": return True
        if op[0] == "d" and op[4] >= 2: return True
        if op[0] in ("u", "d"):
            return True
    return False


# ------------------------------------------------------------------ generators
ALL_INT = sorted(R.INT_TYPES)
ALL_TYPES = ALL_INT + [R.BOOLEAN, R.REAL32, R.REAL64, R.VISIBLE, R.OCTET, R.UNICODE, R.DOMAIN]
ACCESS = ["rw", "ro", "wo", "const"]
REAL_BITS = {R.REAL32: [0x00000000, 0x80000000, 0x7F800000, 0x00000001, 0x3F800000, 0xC2F6E979, 0x7F7FFFFF],
             R.REAL64: [0, 1 << 63, 0x7FF0000000000000, 1, 0x3FF0000000000000, 0x400921FB54442D18]}


def rbytes(rng, n):
    return [rng.randrange(256) for _ in range(n)]


def typed_value(rng, dt, fit=True):
    """a value of the kind the application would put into an entry of type dt"""
    if dt in R.INT_TYPES:
        signed, w = R.INT_TYPES[dt]
        lo, hi = (-(1 << (w - 1)), (1 << (w - 1)) - 1) if signed else (0, (1 << w) - 1)
        if not fit:
            return {"i": rng.choice([hi + 1, lo - 1, hi + (1 << w)])}
        return {"i": rng.choice([lo, hi, 0, 1, rng.randint(lo, hi), rng.randint(lo, hi)])}
    if dt == R.BOOLEAN:
        return {"i": rng.choice([0, 1])}
    if dt in R.REALS:
        return {"f": rng.choice(REAL_BITS[dt])}
    if dt == R.VISIBLE:
        return {"s": [rng.randrange(32, 127) for _ in range(rng.choice([0, 1, 3, 4, 5, 7, 8, 11, 14, 15]))]}
    if dt == R.UNICODE:
        return {"s": [rng.choice([rng.randrange(32, 127), rng.randrange(0xA0, 0xD7FF)]) for _ in range(rng.choice([0, 1, 2, 3, 4, 7]))]}
    return {"b": rbytes(rng, rng.choice([0, 1, 2, 3, 4, 5, 6, 7, 8, 13, 14, 15, 21]))}


def entry(sub, dt, acc="rw", default=None, value=None):
    return dict(sub=sub, dt=dt, acc=acc, default=default, value=value)


def var(index, dt, acc="rw", default=None, value=None):
    return dict(index=index, kind="var", subs=[entry(0, dt, acc, default, value)])


def run_case(dic, ops, rcb=(), store=(), **kw):
    return dict(kind="run", dict=dic, rcb=[list(x) for x in rcb], store=[list(x) for x in store], ops=ops, **kw)


def value_cases(rng, n, dt=R.DOMAIN, full=True):
    """value of length n supplied by each of the four sources, alone and shadowing the lower ones; then downloads.
    full=False keeps the four sources and the download modes but leaves out the record/array/ro/const variants."""
    data = rbytes(rng, n)
    other = lambda: {"b": rbytes(rng, rng.choice([1, 3, 9]))}
    b = {"b": data}
    dic = [var(0x2000, dt), var(0x2001, dt, default=b), var(0x2002, dt, value=b, default=other()),
           var(0x2004, dt, default=other(), value=other())]
    store = [(0x2000, 0, data)]
    ops = [["u", 0x2000, 0], ["u", 0x2001, 0], ["u", 0x2002, 0], ["u", 0x2004, 0]]
    if full:
        dic += [var(0x2003, dt, default=other(), value=other()), var(0x2005, dt, default=other()), var(0x2006, dt, acc="ro", value=b),
                var(0x2007, dt, acc="const", default=b),
                dict(index=0x2008, kind="rec", subs=[entry(0, R.DOMAIN, "ro", default={"b": [2]}), entry(1, dt, "rw", default=b), entry(2, dt, "rw", value=b)]),
                dict(index=0x2009, kind="arr", subs=[entry(0, R.DOMAIN, "ro", default={"b": [2]}), entry(1, dt, "rw", default=b, value=other())])]
        store += [(0x2003, 0, data), (0x2005, 0, data)]
        ops += [["u", 0x2003, 0], ["u", 0x2005, 0], ["u", 0x2006, 0], ["u", 0x2007, 0], ["u", 0x2008, 1], ["u", 0x2008, 2], ["u", 0x2009, 7], ["u", 0x2009, 1]]
    rcb = [(0x2004, 0, b)]
    c1 = run_case(dic, ops, rcb, store)
    # downloads of n bytes in every mode that can carry them, each followed by an upload
    ops = []
    modes = [2, 3] + ([0] if 1 <= n <= 4 else []) + ([1] if n == 4 else [])
    for m in modes:
        d2 = rbytes(rng, n)
        ops += [["d", 0x2001, 0, d2, m], ["u", 0x2001, 0]]
    if full:
        d3 = rbytes(rng, n)
        ops += [["d", 0x2009, 3, d3, 2], ["u", 0x2009, 3], ["u", 0x2009, 4], ["d", 0x2008, 2, d3, 3], ["u", 0x2008, 2]]
    c2 = run_case(dic, ops, [], store)
    return [c1, c2]


def type_cases(rng):
    out = []
    for dt in ALL_TYPES:
        nb = R.NUMERIC_BYTES.get(dt)
        dic = [var(0x2000, dt, default=typed_value(rng, dt)), var(0x2001, dt, value=typed_value(rng, dt), default=typed_value(rng, dt)),
               var(0x2002, dt), var(0x2003, dt, default=typed_value(rng, dt, fit=False) if dt in R.INT_TYPES else typed_value(rng, dt))]
        rcb = [(0x2002, 0, typed_value(rng, dt))]
        ops = [["u", 0x2000, 0], ["u", 0x2001, 0], ["u", 0x2002, 0], ["u", 0x2003, 0]]
        for n in sorted({nb or 3, 1, 4, 8, 0}):
            for m in ([0, 2] if 1 <= n <= 4 else [2, 3]):
                ops += [["d", 0x2000, 0, rbytes(rng, n), m], ["u", 0x2000, 0]]
        if nb == 4 or nb is None:
            ops += [["d", 0x2001, 0, rbytes(rng, 4), 1], ["u", 0x2001, 0]]
        out.append(run_case(dic, ops, rcb, []))
    return out


INDEX_POOL = [0x1000, 0x1018, 0x2000, 0x2001, 0x2002, 0x2003, 0x20FF, 0x6000, 0x6040, 0xFFFF, 0x0001]


def random_dict(rng):
    dic = []
    for idx in rng.sample(INDEX_POOL, rng.randrange(1, 7)):
        kind = rng.choice(["var", "var", "rec", "arr"])
        def rnd_entry(sub):
            dt = rng.choice(ALL_TYPES + [None, 0x0C])
            acc = rng.choice(ACCESS + ["rw", "rw", "rwr", "rww"])
            if dt in ALL_TYPES:
                mk = lambda: rng.choice([None, typed_value(rng, dt), typed_value(rng, dt), {"b": rbytes(rng, rng.randrange(0, 10))}])
            else:
                mk = lambda: rng.choice([None, {"b": rbytes(rng, rng.randrange(0, 10))}, {"i": 1}])
            return entry(sub, dt, acc, mk(), mk())
        if kind == "var":
            subs = [rnd_entry(0)]
        elif kind == "rec":
            subs = [rnd_entry(s) for s in sorted(rng.sample([0, 1, 2, 3, 5, 255], rng.randrange(0, 5)))]
        else:
            subs = [rnd_entry(s) for s in sorted(rng.sample([0, 1, 1, 2, 3], rng.randrange(0, 4)))]
            subs = [e for i, e in enumerate(subs) if all(e["sub"] != x["sub"] for x in subs[:i])]
        dic.append(dict(index=idx, kind=kind, subs=subs))
    return dic


def addresses(rng, dic):
    """multiplexers worth addressing: every entry, array templates, missing subs, missing indices"""
    out = []
    for o in dic:
        for e in o["subs"]:
            out.append((o["index"], e["sub"]))
        out += [(o["index"], rng.choice([1, 4, 9, 254, 255])), (o["index"], 0)]
    out += [(rng.choice(INDEX_POOL), rng.choice([0, 1, 2])), (0x3000, 0)]
    return out


CMD_POOL = [0x40, 0x60, 0x70, 0x00, 0x10, 0x01, 0x11, 0x0F, 0x1D, 0x21, 0x20, 0x23, 0x2F, 0x2B, 0x27, 0x22, 0xA0, 0xA3, 0xC0, 0xC1,
            0xE0, 0xFF, 0x80, 0x41, 0x61]


def raw_frame(rng, dic, addrs):
    k = rng.random()
    if k < 0.25:
        return rbytes(rng, rng.randrange(1, 9))
    idx, sub = rng.choice(addrs)
    c = rng.choice(CMD_POOL) if k < 0.9 else rng.randrange(256)
    f = [c, idx & 255, idx >> 8, sub] + rng.choice([[0, 0, 0, 0], rbytes(rng, 4), [rng.randrange(0, 20), 0, 0, 0]])
    if c >> 5 in (0, 3) and rng.random() < 0.7:
        f = [c] + rbytes(rng, 7)
    if rng.random() < 0.15:
        f = f[:rng.randrange(1, 8)]
    return f


def random_op(rng, dic, addrs):
    k = rng.random()
    idx, sub = rng.choice(addrs)
    if k < 0.35:
        return ["f", raw_frame(rng, dic, addrs)]
    if k < 0.65:
        return ["u", idx, sub]
    e = R.lookup(dic, idx, sub)
    nb = R.NUMERIC_BYTES.get(e["dt"]) if isinstance(e, dict) else None
    n = rng.choice([nb, nb, rng.randrange(0, 10)]) if nb else rng.choice([0, 1, 2, 3, 4, 5, 7, 8, 14, 15, 20])
    mode = rng.choice([0, 2, 3] if 1 <= n <= 4 else [2, 3])
    if n == 4 and rng.random() < 0.3:
        mode = 1
    return ["d", idx, sub, rbytes(rng, n), mode]


def history_case(rng, nops):
    dic = random_dict(rng)
    addrs = addresses(rng, dic)
    ops = [random_op(rng, dic, addrs) for _ in range(nops)]
    rcb = []
    for _ in range(rng.choice([0, 0, 1, 2])):
        idx, sub = rng.choice(addrs)
        e = R.lookup(dic, idx, sub)
        if isinstance(e, dict) and e["dt"] in ALL_TYPES:
            rcb.append((idx, sub, typed_value(rng, e["dt"])))
    store = []
    for _ in range(rng.choice([0, 1, 2])):
        idx, sub = rng.choice(addrs)
        if all((idx, sub) != (i, s) for i, s, _ in store):
            store.append((idx, sub, rbytes(rng, rng.randrange(0, 12))))
    return run_case(dic, ops, rcb, store)


def garbage_case(rng, nops):
    """a freshly created node fed arbitrary frames (restarts, out-of-sequence segments, unknown commands)"""
    dic = [var(0x2000, R.DOMAIN, default={"b": rbytes(rng, rng.choice([0, 3, 10, 16]))}), var(0x2001, 0x06, default={"i": 7}),
           var(0x2002, R.DOMAIN, acc="wo"), var(0x2003, R.DOMAIN, acc="ro", default={"b": [1, 2, 3, 4, 5, 6, 7, 8, 9]})]
    addrs = [(0x2000, 0), (0x2001, 0), (0x2002, 0), (0x2003, 0), (0x3000, 0), (0x2000, 1)]
    ops = []
    if rng.random() < 0.5:
        ops.append(["u", 0x2000, 0])
    for _ in range(nops):
        ops.append(["f", raw_frame(rng, dic, addrs)])
    if rng.random() < 0.5:
        ops.append(["u", 0x2003, 0])
    return run_case(dic, ops)


def fixed_cases():
    """boundary cases named in the design: fresh server, empty value, short frames"""
    dom = [var(0x2000, R.VISIBLE, default={"s": []}), var(0x2001, R.DOMAIN), var(0x2002, 0x06, acc="ro", default={"i": 7}),
           var(0x2003, 0x06, acc="wo"), var(0x2004, R.DOMAIN, default={"b": list(range(48, 58))})]
    out = []
    for f in ([0xE0, 0, 0, 0, 0, 0, 0, 0], [0x60, 0, 0, 0, 0, 0, 0, 0], [0x00, 0, 0, 0, 0, 0, 0, 0], [0x40], [0x70], [0x10, 1, 2],
              [0x80, 0, 0x20, 0, 0, 0, 4, 5], [0x80, 0, 0x20], [0xC0, 0, 0x20, 0, 0, 0, 0, 0], [0xA0, 4, 0x20, 0, 0, 0, 0, 0], [0x21, 1, 0x20, 0, 5]):
        out.append(run_case(dom, [["f", f], ["u", 0x2004, 0], ["f", f], ["f", [0x60] + [0] * 7], ["f", f]]))
    out.append(run_case(dom, [["u", 0x2000, 0], ["f", [0x60] + [0] * 7], ["d", 0x2001, 0, [], 2], ["u", 0x2001, 0], ["d", 0x2001, 0, [], 3], ["u", 0x2001, 0]]))
    out.append(run_case(dom, [["u", 0x2004, 0], ["f", [0x40, 4, 0x20, 0, 0, 0, 0, 0]], ["f", [0x70] + [0] * 7], ["f", [0x60] + [0] * 7],
                              ["f", [0x70] + [0] * 7], ["f", [0x60] + [0] * 7], ["f", [0x70] + [0] * 7]]))
    out.append(run_case(dom, [["f", [0x21, 2, 0x20, 0, 2, 0, 0, 0]], ["f", [0x0B, 1, 2, 0, 0, 0, 0, 0]], ["u", 0x2002, 0], ["d", 0x2002, 0, [1, 2], 0],
                              ["d", 0x2003, 0, [1], 0], ["d", 0x2003, 0, [1, 2], 0], ["u", 0x2003, 0], ["u", 0x2002, 5], ["u", 0x3000, 0]]))
    # a zero-length frame: outside the quantifier (1..8 bytes); model and implementation agree that it raises
    out.append(run_case(dom, [["f", []], ["u", 0x2004, 0]]))
    return out


def seg_frames_of(idx, sub, chunks, sized):
    """raw frames of a segmented download whose segments carry the given chunks (each 0..7 bytes)"""
    total = sum(len(ch) for ch in chunks)
    fr = [[0x21 if sized else 0x20, idx & 255, idx >> 8, sub] + (list(total.to_bytes(4, "little")) if sized else [0, 0, 0, 0])]
    for k, ch in enumerate(chunks):
        last = k == len(chunks) - 1
        fr.append([((k % 2) << 4) | ((7 - len(ch)) << 1) | (1 if last else 0)] + list(ch) + [0] * (7 - len(ch)))
    return fr


def partial_segment_cases(rng, n):
    """segmented downloads (size indicated / not) whose non-final segments are partly filled (1..6 bytes, legal
    CiA 301), each followed by an upload; the write callback and the data_store must hold the concatenation"""
    u32 = var(0x2002, 0x07, default={"i": 5})
    dic = [var(0x2001, R.DOMAIN), u32, var(0x2003, 0x1B),
           dict(index=0x2004, kind="arr", subs=[entry(0, 0x05, "ro", default={"i": 2}), entry(1, R.OCTET, "rw", default={"b": [1]})])]
    out = []
    fixed = [[7, 7, 7, 7, 7, 2, 7, 7, 7, 4], [1, 1], [6, 7], [3, 0], [2, 5, 7, 1, 6, 3, 4, 0], [6], [1, 6, 7]]
    for k in range(n):
        sizes = fixed[k] if k < len(fixed) else [rng.randrange(1, 8) for _ in range(rng.randrange(1, 7))] + [rng.randrange(0, 8)]
        if k >= len(fixed) and all(x == 7 for x in sizes[:-1]):
            sizes[rng.randrange(len(sizes) - 1)] = rng.randrange(1, 7)
        chunks = [rbytes(rng, x) if rng.random() < 0.8 else [0] * x for x in sizes]
        idx, sub = rng.choice([(0x2001, 0), (0x2001, 0), (0x2004, 1), (0x2004, 9)])
        frs = seg_frames_of(idx, sub, chunks, rng.random() < 0.5)
        if len(frs) > 2 and rng.random() < 0.35:
            # a duplicated (or foreign) segment with the wrong toggle in the middle: refused with a toggle error, and if the
            # server lets the transfer go on, its bytes must not end up in the value
            j = rng.randrange(2, len(frs))
            dup = list(frs[j - 1]) if rng.random() < 0.5 else [frs[j - 1][0] & 0xFE] + rbytes(rng, 7)
            frs = frs[:j] + [dup] + frs[j:]
        ops = [["f", f] for f in frs] + [["u", idx, sub]]
        if rng.random() < 0.4:      # numeric entries written in pieces: 4 = 1+3, 8 = 3+5 ...
            a = rng.randrange(1, 4)
            ops += [["f", f] for f in seg_frames_of(0x2002, 0, [rbytes(rng, a), rbytes(rng, 4 - a)], rng.random() < 0.5)] + [["u", 0x2002, 0]]
            b = rng.randrange(1, 7)
            ops += [["f", f] for f in seg_frames_of(0x2003, 0, [rbytes(rng, b), rbytes(rng, min(7, 8 - b)), rbytes(rng, 8 - b - min(7, 8 - b))], False)] + [["u", 0x2003, 0]]
        out.append(run_case(dic, ops))
    return out


def callback_cases(rng, n):
    """application callbacks that refuse: a write callback raising SdoAbortedError(code) (or failing) for chosen
    (index, sub, value) must leave the node as it was - the next upload returns the old value -, and while a write
    callback runs the node still holds the old value (peek).  Read callbacks that raise are answered by one abort.
    Implementation + oracle only (model: False): the Coq model has no raising callbacks."""
    out = []
    for k in range(n):
        code = rng.choice([0x06090030, 0x06090031, 0x08000020, 0x08000022, 0x06010002, rng.getrandbits(32)])
        bad2 = rbytes(rng, 2)
        badn = rbytes(rng, rng.choice([1, 3, 4, 5, 7, 8, 9, 15]))
        dic = [var(0x2001, R.DOMAIN, default={"b": rbytes(rng, rng.choice([0, 2, 5, 9]))}), var(0x2002, 0x06, default={"i": rng.randrange(65536)}),
               var(0x2003, R.OCTET), var(0x2005, 0x07, value={"i": 77}),
               dict(index=0x2004, kind="arr", subs=[entry(0, 0x05, "ro", default={"i": 2}), entry(1, 0x06, "rw", default={"i": 258})])]
        act = {"abort": code} if rng.random() < 0.8 else {"exc": 1}
        wcb = [[0x2001, 0, badn, act], [0x2002, 0, bad2, {"abort": code}], [0x2003, 0, None, act], [0x2004, 5, bad2, act]]
        good2 = [b for b in (rbytes(rng, 2), rbytes(rng, 2)) if b != bad2] or [[bad2[0] ^ 1, bad2[1]]]
        segm = lambda: rng.choice([2, 3])
        ops = [["u", 0x2001, 0], ["d", 0x2001, 0, badn, (0 if len(badn) <= 4 and rng.random() < 0.5 else segm())], ["u", 0x2001, 0],
               ["d", 0x2001, 0, rbytes(rng, len(badn) + 1), segm()], ["u", 0x2001, 0], ["d", 0x2001, 0, badn, segm()], ["u", 0x2001, 0],
               ["u", 0x2002, 0], ["d", 0x2002, 0, bad2, rng.choice([0, 2, 3])], ["u", 0x2002, 0], ["d", 0x2002, 0, good2[0], 0], ["u", 0x2002, 0],
               ["d", 0x2002, 0, bad2, rng.choice([0, 2, 3])], ["u", 0x2002, 0],
               ["d", 0x2003, 0, rbytes(rng, 3), 0], ["u", 0x2003, 0], ["d", 0x2003, 0, rbytes(rng, 10), 2], ["u", 0x2003, 0],
               ["d", 0x2004, 5, good2[0], 0], ["d", 0x2004, 5, bad2, rng.choice([0, 3])], ["u", 0x2004, 5],
               ["d", 0x2005, 0, rbytes(rng, 4), 1], ["u", 0x2005, 0]]
        if k % 3 == 0:   # the same through raw frames: expedited write, then segmented write in partly filled segments
            ops += [["f", [0x2B, 2, 0x20, 0] + bad2 + [0, 0]], ["u", 0x2002, 0]]
            ops += [["f", f] for f in seg_frames_of(0x2001, 0, [badn[:3], badn[3:10], badn[10:]], True)] + [["u", 0x2001, 0]]
        rcb = []
        if k % 4 == 1:
            rcb = [(0x2005, 0, {"abort": code}), (0x2003, 0, {"exc": 1})]
        if k % 5 == 4:
            ops = [rng.choice(ops) for _ in range(len(ops))]
        out.append(run_case(dic, ops, rcb, [], wcb=wcb, peek=True, model=False))
    return out


def array_template_cases(rng, n):
    """several arrays with different data types / defaults whose members above sub 1 are not declared and are
    answered from member 1: every upload must return the default of ITS array, whatever was uploaded before
    (one after the other, through the reference client and through raw frames)"""
    out = []
    for k in range(n):
        kinds = [(0x05, lambda: {"i": rng.randrange(256)}), (0x07, lambda: {"i": rng.getrandbits(32)}), (0x06, lambda: {"i": rng.randrange(65536)}),
                 (R.VISIBLE, lambda: {"s": [rng.randrange(65, 91) for _ in range(rng.choice([3, 5, 12]))]}), (R.DOMAIN, lambda: {"b": rbytes(rng, rng.choice([1, 6, 9]))}),
                 (0x1B, lambda: {"i": rng.getrandbits(64)}), (R.OCTET, lambda: {"b": rbytes(rng, 4)})]
        rng.shuffle(kinds)
        arrs = []
        for j, (dt, mk) in enumerate(kinds[:rng.randrange(2, 6)]):
            m1 = entry(1, dt, rng.choice(["rw", "ro", "const"]), default=mk())
            if rng.random() < 0.3:
                m1["value"] = mk()        # the parameter value of member 1 is NOT inherited by the other members
            arrs.append(dict(index=0x2100 + 0x100 * j, kind="arr", subs=[entry(0, 0x05, "ro", default={"i": 8}), m1]))
        ops = []
        for _ in range(rng.randrange(3, 8)):
            a = rng.choice(arrs)
            sub = rng.choice([2, 3, 8, 255, 2, 1])
            k = rng.random()
            if k < 0.4:
                ops.append(["u", a["index"], sub])
            else:
                # back-to-back requests for synthesised members of different arrays (each upload run to its end)
                fr = []
                for _ in range(rng.randrange(2, 9)):
                    b = rng.choice(arrs)
                    sb = rng.choice([2, 3, 4, 9, 200, 255])
                    fr.append([0x40, b["index"] & 255, b["index"] >> 8, sb, 0, 0, 0, 0])
                    nb = len(R.encode_value(b["subs"][1]["dt"], b["subs"][1]["default"]))
                    if nb > 4:
                        fr += [[0x60 | ((j % 2) << 4), 0, 0, 0, 0, 0, 0, 0] for j in range((nb + 6) // 7)]
                ops.append(["b", fr])
        out.append(run_case(arrs, ops))
    return out


def od_change_cases(rng, n):
    """the application changes the default / parameter value of a declared entry at run time (public attributes of
    the dictionary entry): later uploads serve the current value, with the usual precedence.
    Implementation + oracle only (model: False)."""
    out = []
    for _ in range(n):
        dt = rng.choice([0x05, 0x06, 0x07, R.DOMAIN, R.VISIBLE, R.OCTET])
        dic = [var(0x2000, dt, default=typed_value(rng, dt)), var(0x2001, dt, value=typed_value(rng, dt), default=typed_value(rng, dt)),
               dict(index=0x2002, kind="rec", subs=[entry(0, 0x05, "ro", default={"i": 1}), entry(1, dt, "rw", default=typed_value(rng, dt))]),
               dict(index=0x2003, kind="arr", subs=[entry(0, 0x05, "ro", default={"i": 4}), entry(1, dt, "rw", default=typed_value(rng, dt))])]
        ops = []
        for _ in range(rng.randrange(3, 8)):
            idx, sub = rng.choice([(0x2000, 0), (0x2001, 0), (0x2002, 1), (0x2003, 1)])
            ops += [["u", idx, sub], ["od", idx, sub, rng.choice(["default", "value"]), rng.choice([typed_value(rng, dt), typed_value(rng, dt), None])], ["u", idx, sub]]
            if idx == 0x2003:
                ops += [["u", 0x2003, rng.choice([2, 3, 7])]]
            if rng.random() < 0.3:
                nb = R.NUMERIC_BYTES.get(dt) or 3
                ops += [["d", idx, sub, rbytes(rng, nb), 0 if nb <= 4 else 2], ["u", idx, sub]]
        out.append(run_case(dic, ops, model=False))
    return out


def long_cases(rng, lengths):
    out = []
    for n in lengths:
        data = rbytes(rng, n)
        dic = [var(0x2000, R.DOMAIN, default={"b": data}), var(0x2001, R.DOMAIN)]
        d2 = rbytes(rng, n)
        out.append(run_case(dic, [["u", 0x2000, 0], ["d", 0x2001, 0, d2, 2], ["u", 0x2001, 0]]))
    return out


def gen_cases(rng, tier):
    cases = fixed_cases()
    for n in range(0, 65):
        cases += value_cases(rng, n, R.DOMAIN if n % 3 else R.OCTET, full=(tier != "quick" or n <= 8 or n % 7 in (0, 1)))
    cases += type_cases(rng)
    nh, ng = {"quick": (150, 150), "thorough": (1500, 1500), "search": (600, 600)}[tier]
    for _ in range(nh):
        cases.append(history_case(rng, rng.randrange(2, 12)))
    for _ in range(ng):
        cases.append(garbage_case(rng, rng.randrange(1, 12)))
    cases += callback_cases(rng, {"quick": 40, "thorough": 400, "search": 200}[tier])
    cases += array_template_cases(rng, {"quick": 80, "thorough": 800, "search": 300}[tier])
    cases += od_change_cases(rng, {"quick": 30, "thorough": 300, "search": 100}[tier])
    cases += partial_segment_cases(rng, {"quick": 60, "thorough": 600, "search": 300}[tier])
    if tier == "quick":
        cases += long_cases(rng, [70, 127, 700])
    elif tier == "thorough":
        cases += long_cases(rng, [65, 70, 77, 127, 128, 255, 256, 700, 889, 896, 1000, 4096, 6993, 7000, 9999, 10000])
        for _ in range(3):
            cases += type_cases(rng)
        for n in range(0, 65):
            cases += value_cases(rng, n, R.DOMAIN)
    return cases


def shrink(c):
    if c["kind"] != "run":
        return
    ops = c["ops"]
    for i in range(len(ops)):
        yield dict(c, ops=ops[:i] + ops[i + 1:])
    for i, op in enumerate(ops):        # frames of a burst
        if op[0] == "b" and len(op[1]) > 1:
            for j in range(len(op[1])):
                yield dict(c, ops=ops[:i] + [["b", op[1][:j] + op[1][j + 1:]]] + ops[i + 1:])
    for i in range(len(ops) - 1):       # two consecutive segments at once keep the toggle sequence intact
        if ops[i][0] == "f" and ops[i + 1][0] == "f":
            yield dict(c, ops=ops[:i] + ops[i + 2:])
    for i, op in enumerate(ops):
        if op[0] == "d" and len(op[3]) > 0:
            yield dict(c, ops=ops[:i] + [[op[0], op[1], op[2], op[3][:len(op[3]) // 2], op[4]]] + ops[i + 1:])
    if len(c["dict"]) > 1:
        for i in range(len(c["dict"])):
            yield dict(c, dict=c["dict"][:i] + c["dict"][i + 1:])
    if len(c.get("wcb", [])) > 1:
        for i in range(len(c["wcb"])):
            yield dict(c, wcb=c["wcb"][:i] + c["wcb"][i + 1:])
    if c["rcb"]:
        yield dict(c, rcb=[])
    if c["store"]:
        yield dict(c, store=[])


def neighbours(c, rng):
    if c["kind"] != "run":
        return
    for _ in range(10):
        ops = list(c["ops"])
        if ops:
            ops = ops[:rng.randrange(1, len(ops) + 1)]
        yield dict(c, ops=ops)
