"""C15 - a PDO value set by the producer is the value the consumer reads."""
import logging, math, threading
from vlib.obs import Err, guarded, gz, gzlist, gnat, glist, gbool
from props.c04 import INT_TYPES, BOOLEAN, REAL32, REAL64, REALS, bits_to_float, float_to_bits, rng_of
from props.c05 import type_bits, field_values, U8, I8, U16, U32

PROP = "C15"
MODEL_VO = ["theories/Model/PdoLink.vo"]
COQ_IMPORTS = "From CV Require Import Model.Codec Model.Pdo Model.PdoLink."
COQ_RUN = "run_link"
ANCHORS = [("canopen.pdo.base", "PdoBase.__getitem__"), ("canopen.pdo.base", "PdoMap.__getitem__"), ("canopen.pdo.base", "PdoMap.clear"), ("canopen.pdo.base", "PdoMap.add_variable"), ("canopen.pdo.base", "PdoMap.start"), ("canopen.pdo.base", "PdoMap.stop"), ("canopen.pdo.base", "PdoMap.__init__"), ("canopen.pdo.base", "PdoMap.on_message"), ("canopen.pdo.base", "PdoMap.transmit"), ("canopen.pdo.base", "PdoMap.remote_request"), ("canopen.pdo.base", "PdoMap.subscribe"), ("canopen.pdo.base", "PdoMap.add_callback"), ("canopen.pdo.base", "PdoMap.wait_for_reception"), ("canopen.network", "Network.subscribe"), ("canopen.network", "Network.notify")]
COQ_CASE_TYPE = "link_case"
RULE = ("case = up to 4 producer maps (LocalNode TPDOs) and 4 consumer maps (RemoteNode TPDOs) on one synchronous bus, each with "
        "a COB-ID (distinct or colliding), enabled / RTR flags and a bit layout as in C05, then a sequence of write / transmit / "
        "foreign frame / remote request / subscribe / reconfigure / add callback / start-stop / read / state operations; "
        "non-trivial = at least one transmit that reaches a subscribed consumer whose layout has an unaligned or sub-byte field; "
        "plus (oracle only) waits for reception served by a second thread")
CASE_TIMEOUT = 10     # a dispatch that blocks (e.g. on a lock a callback needs) becomes an observation, not a hang
TRUSTED = ["modelled, not verified: threading.Condition in wait_for_reception (exercised with a real second thread, oracle only); python-can Message"]
ASSUMPTIONS = ["the bus delivers a transmitted frame to the subscribers of its CAN id with the timestamp the bus assigns (integers injected by the harness)"]

logging.disable(logging.CRITICAL)
NPROD = 4


def make_world(maps):
    """maps: list of dicts {cob, en, rtr, layout}; indices 0..NPROD-1 are producer-side (LocalNode TPDO),
    the rest consumer-side (RemoteNode TPDO)."""
    import canopen
    from canopen import objectdictionary as odm

    class Net(canopen.Network):
        def __init__(self):
            super().__init__()
            self.sent = []
            self.now = 0
        def send_message(self, can_id, data, remote=False):
            self.sent.append([can_id, bytes(data), bool(remote)])
            if not remote:
                self.notify(can_id, bytearray(data), self.now)
        def send_periodic(self, can_id, data, period, remote=False):
            class T:
                def stop(s): pass
                def update(s, d): pass
            return T()

    od = odm.ObjectDictionary()
    for n in range(4):
        rec = odm.ODRecord(f"TPDO{n} comm", 0x1800 + n)
        for sub, nm in ((0, "n"), (1, "cob"), (2, "type")):
            v = odm.ODVariable(nm, 0x1800 + n, sub); v.data_type = odm.UNSIGNED32; rec.add_member(v)
        od.add_object(rec)
        arr = odm.ODArray(f"TPDO{n} map", 0x1A00 + n)
        for sub in (0, 1):
            v = odm.ODVariable(f"m{sub}", 0x1A00 + n, sub); v.data_type = odm.UNSIGNED32; arr.add_member(v)
        od.add_object(arr)
    # every map pair j (producer j, consumer j) has its own objects, so that lookups through the PDO collection
    # (node.tpdo[name], node.pdo[index]) are unambiguous
    from props.c04 import INT_TYPES as _IT
    for j in range(NPROD):
        for dt in list(_IT) + [BOOLEAN, REAL32, REAL64]:
            for i in range(8):
                v = odm.ODVariable(var_name(j, dt, i), var_index(j, dt, i), 0)
                v.data_type = dt
                od.add_object(v)
    net = Net()
    local = canopen.LocalNode(5, od)
    remote = canopen.RemoteNode(5, od)
    local.associate_network(net)
    remote.associate_network(net)
    objs = []
    for k, m in enumerate(maps):
        pm = (local.tpdo if k < NPROD else remote.tpdo)[(k % NPROD) + 1]
        pm.clear()
        for i, (dt, ln) in enumerate(m["layout"]):
            pm.add_variable(var_index(k % NPROD, dt, i), 0, ln)
        pm.cob_id, pm.enabled, pm.rtr_allowed = m["cob"], m["en"], m["rtr"]
        objs.append(pm)
    net.colls = (local.tpdo, remote.tpdo)
    return net, objs


def var_index(j, dt, i):
    return 0x2000 + j * 0x400 + dt * 8 + i


def var_name(j, dt, i):
    return f"m{j}_t{dt}_{i}"


def get_var(net, objs, layouts, k, var, via):
    """the PdoVariable for entry `var` of map k, reached through the map or through the PDO collection"""
    dt = layouts[k][var][0]
    if via == "map":
        return objs[k].map[var]
    coll = net.colls[0] if k < NPROD else net.colls[1]
    if via == "name":
        return coll[var_name(k % NPROD, dt, var)]
    if via == "mapname":
        return objs[k][var_name(k % NPROD, dt, var)]
    return coll[var_index(k % NPROD, dt, var)]


def read_var(var, dt):
    r = var.raw
    if isinstance(r, float):
        if math.isnan(r):
            return [int.from_bytes(bytes(var.data), "little")]
        eb, mb = REALS[dt]
        return [float_to_bits(r, eb, mb)]
    return int(r) if isinstance(r, bool) else r


def impl(c):
    def run():
        net, objs = make_world(c["maps"])
        layouts = [list(m["layout"]) for m in c["maps"]]
        vias = c.get("vias") or ["map"]
        nv = [0]
        def via():
            nv[0] += 1
            return vias[nv[0] % len(vias)]
        cblog = []
        out = []
        for op in c["ops"]:
            t = op[0]
            if t in ("w", "wf"):
                dt = layouts[op[1]][op[2]][0]
                val = bits_to_float(op[3], *REALS[dt]) if t == "wf" else op[3]
                v_ = via()
                def wr():
                    get_var(net, objs, layouts, op[1], op[2], v_).raw = val
                out.append(guarded(wr))
            elif t == "r":
                dt = layouts[op[1]][op[2]][0]
                v_ = via()
                out.append(guarded(lambda: read_var(get_var(net, objs, layouts, op[1], op[2], v_), dt)))
            elif t == "remap":
                pm = objs[op[1]]
                def rm():
                    pm.clear()
                    for i, (dt, ln) in enumerate(op[2]):
                        pm.add_variable(var_index(op[1] % NPROD, dt, i), 0, ln)
                out.append(guarded(rm))
                layouts[op[1]] = list(op[2])
            elif t == "start0":
                out.append(guarded(objs[op[1]].start))
            elif t == "tx":
                net.now = op[2]
                out.append(guarded(objs[op[1]].transmit))
            elif t == "frame":
                out.append(guarded(lambda: net.notify(op[1], bytearray(op[2]), op[3])))
            elif t == "rtr":
                out.append(guarded(objs[op[1]].remote_request))
            elif t == "sub":
                out.append(guarded(objs[op[1]].subscribe))
            elif t == "cob":
                pm = objs[op[1]]
                pm.cob_id, pm.enabled, pm.rtr_allowed = op[2], op[3], op[4]
                out.append(None)
            elif t == "cb":
                k, cb = op[1], op[2]
                def call(m, k=k, cb=cb):
                    cblog.append([k, cb])
                    if cb >= 100 and cb % 2 == 0:
                        # a re-entrant callback: it subscribes (again) exactly the handler that is being dispatched
                        # right now - a duplicate, so nothing changes, but it needs whatever the dispatch holds
                        m.pdo_node.network.subscribe(m.cob_id, m.on_message)
                objs[k].add_callback(call)
                out.append(None)
            elif t == "task":
                pm = objs[op[1]]
                out.append(guarded(lambda: pm.start(1) if op[2] else pm.stop()))
            elif t == "st":
                pm = objs[op[1]]
                out.append([bool(pm.is_received), pm.timestamp, pm.period, bytes(pm.data)])
            elif t == "wait":
                # runtime part: a second thread delivers frames while this thread waits; op = ["wait", k, frames, timeout]
                # with frames = [[can_id, data, ts, delay_ms], ...]
                pm = objs[op[1]]
                def feeder():
                    import time
                    for cid, d, ts_, delay in op[2]:
                        time.sleep(delay / 1000.0)
                        net.notify(cid, bytearray(d), ts_)
                th = threading.Thread(target=feeder)
                th.start()
                r = pm.wait_for_reception(timeout=op[3])
                th.join()
                out.append(r)
            else:
                raise ValueError(t)
        return [out, [list(s) for s in net.sent], cblog]
    return guarded(run)


# ------------------------------------------------------------------ reference (the property, executable)
class RefMap:
    def __init__(self, m):
        self.cob, self.en, self.rtr, self.layout = m["cob"], m["en"], m["rtr"], list(m["layout"])
        total = sum(l for _, l in self.layout)
        self.data = bytes((total + 7) // 8)
        self.ts = None; self.period = None; self.received = False; self.task = False; self.cbs = []
        self.unknown = False
    def field(self, var):
        off = sum(l for _, l in self.layout[:var]); dt, ln = self.layout[var]
        return off, dt, ln


def oracle(c, o):
    if isinstance(o, Err):
        return ("link_crash", repr(o))
    outs, sent, cblog = o
    maps = [RefMap(m) for m in c["maps"]]
    subs = []          # (cob, k) in subscription order
    exp_sent, exp_cb = [], []

    def arrive(cob, data, ts):
        for (sc, k) in list(subs):
            m = maps[k]
            if sc == cob and m.cob == cob and not m.task:
                if m.ts is not None:
                    m.period = ts - m.ts
                m.ts, m.received, m.data, m.unknown = ts, True, bytes(data), False
                for cb in m.cbs:
                    exp_cb.append([k, cb])

    for i, (op, res) in enumerate(zip(c["ops"], outs)):
        t = op[0]
        where = f"op #{i} {op}"
        if t in ("w", "wf"):
            m = maps[op[1]]; off, dt, ln = m.field(op[2])
            v = op[3]
            F = int.from_bytes(m.data, "little")
            if off + ln > 8 * len(m.data):
                m.unknown = True   # frame replaced by a shorter foreign frame: outside the property,
                continue           # the map's content is not judged until the next reception
            if t == "w" and dt in INT_TYPES:
                lo, hi = rng_of(*INT_TYPES[dt])
                if not lo <= v <= hi:
                    if not isinstance(res, Err):
                        return ("link_write_out_of_range_accepted", where)
                    continue
            if res is not None:
                return ("link_write_rejected", f"{where}: {res!r}")
            mask = (1 << ln) - 1
            F = (F & ~(mask << off)) | (((1 if (dt == BOOLEAN and v) else v) & mask) << off)
            m.data = F.to_bytes(len(m.data), "little")
        elif t == "r":
            m = maps[op[1]]; off, dt, ln = m.field(op[2])
            if off + ln > 8 * len(m.data) or m.unknown:
                continue
            f = (int.from_bytes(m.data, "little") >> off) & ((1 << ln) - 1)
            if dt in INT_TYPES:
                exp = f - (1 << ln) if INT_TYPES[dt][0] and f >> (ln - 1) else f
            elif dt == BOOLEAN:
                exp = 1 if f else 0
            else:
                if math.isnan(bits_to_float(f, *REALS[dt])):
                    continue
                exp = [f]
            if res != exp:
                side = "consumer" if op[1] >= NPROD else "producer"
                return (f"link_{side}_reads_wrong_value", f"{where}: read {res!r}, expected {exp!r} (map data {m.data.hex()})")
        elif t == "tx":
            m = maps[op[1]]
            exp_sent.append([m.cob, m.data, False])
            arrive(m.cob, m.data, op[2])
        elif t == "frame":
            arrive(op[1], bytes(op[2]), op[3])
        elif t == "rtr":
            m = maps[op[1]]
            if m.en and m.rtr:
                exp_sent.append([m.cob, b"", True])
        elif t == "sub":
            m = maps[op[1]]
            if m.en and (m.cob, op[1]) not in subs:
                subs.append((m.cob, op[1]))
        elif t == "cob":
            m = maps[op[1]]; m.cob, m.en, m.rtr = op[2], op[3], op[4]
        elif t == "cb":
            maps[op[1]].cbs.append(op[2])
        elif t == "task":
            maps[op[1]].task = bool(op[2])
            if op[2]: maps[op[1]].period = 1
        elif t == "remap":
            m = maps[op[1]]
            m.unknown = False
            m.layout = op[2]
            m.data = bytes((sum(l for _, l in op[2]) + 7) // 8)
            if res is not None:
                return ("link_remap_failed", f"{where}: {res!r}")
        elif t == "start0":
            m = maps[op[1]]
            known = bool(m.period)
            m.task = known
            if known != (res is None):
                return ("link_start_without_period", f"{where}: period {m.period!r}, start() gave {res!r}")
        elif t == "st":
            m = maps[op[1]]
            if m.unknown:
                continue
            exp = [m.received, m.ts, m.period, m.data]
            if res != exp:
                what = "timestamp" if res[:1] == exp[:1] and res[3] == exp[3] else "state"
                return (f"link_map_{what}_wrong", f"{where}: map state {res!r}, expected {exp!r}")
        elif t == "wait":
            m = maps[op[1]]
            hits = []
            for cid, d, ts_, delay in op[2]:
                hit = any(sc == cid and k == op[1] for sc, k in subs) and m.cob == cid and not m.task
                arrive(cid, bytes(d), ts_)
                if hit:
                    hits.append(ts_)
            m.received = bool(hits)            # wait_for_reception clears the flag before waiting
            # the reader is woken by the first frame for its map; when it only gets to run after a later frame for
            # the same map has arrived too (scheduling), it reports that later timestamp - both are the map's frames
            if (res not in hits) if hits else (res is not None):
                return ("link_wait_wrong", f"{where}: wait returned {res!r}, frames for this map carried {hits!r}")
    if sent != exp_sent:
        return ("link_sent_frames_wrong", f"sent {sent!r}, expected {exp_sent!r}")
    if cblog != exp_cb:
        return ("link_callbacks_wrong", f"callbacks {cblog!r}, expected {exp_cb!r}")
    return None


def coq_case(c):
    def lay(l): return glist([f"{{| e_dt := {gz(dt)}; e_len := {gz(ln)} |}}" for dt, ln in l])
    ms = glist([f"({gz(m['cob'])}, {gbool(m['en'])}, {gbool(m['rtr'])}, {lay(m['layout'])})" for m in c["maps"]])
    ops = []
    for op in c["ops"]:
        t = op[0]
        if t == "w": ops.append(f"LWrite {gnat(op[1])} {gnat(op[2])} (PInt {gz(op[3])})")
        elif t == "wf": ops.append(f"LWrite {gnat(op[1])} {gnat(op[2])} (PFloat {gz(op[3])})")
        elif t == "r": ops.append(f"LRead {gnat(op[1])} {gnat(op[2])}")
        elif t == "tx": ops.append(f"LTransmit {gnat(op[1])} {gz(op[2])}")
        elif t == "frame": ops.append(f"LFrame {gz(op[1])} {gzlist(op[2])} {gz(op[3])}")
        elif t == "rtr": ops.append(f"LRtr {gnat(op[1])}")
        elif t == "sub": ops.append(f"LSubscribe {gnat(op[1])}")
        elif t == "cob": ops.append(f"LSetCob {gnat(op[1])} {gz(op[2])} {gbool(op[3])} {gbool(op[4])}")
        elif t == "cb": ops.append(f"LAddCb {gnat(op[1])} {gz(op[2])}")
        elif t == "task": ops.append(f"LTask {gnat(op[1])} {gbool(op[2])}")
        elif t == "st": ops.append(f"LState {gnat(op[1])}")
        elif t == "remap": ops.append(f"LRemap {gnat(op[1])} {lay(op[2])}")
        elif t == "start0": ops.append(f"LStartNoPeriod {gnat(op[1])}")
        else: raise ValueError(t)
    return f"LinkCase {ms} {glist(ops)}"


def nontrivial(c):
    has_tx = any(op[0] == "tx" for op in c["ops"])
    odd = False
    for m in c["maps"]:
        off = 0
        for dt, ln in m["layout"]:
            if off % 8 or ln % 8: odd = True
            off += ln
    return has_tx and odd


def rand_layout(rng):
    layout, total = [], 0
    for _ in range(rng.randrange(1, 7)):
        dt = rng.choice(list(INT_TYPES) + [BOOLEAN, BOOLEAN, REAL32, REAL64, U8, I8, U8, I8])
        w = type_bits(dt)
        ln = 1 if dt == BOOLEAN else (rng.randrange(1, 9) if dt in (U8, I8) else w)
        if total + ln > 64: continue
        layout.append([dt, ln]); total += ln
    return layout or [[U8, 3]]


def gen_cases(rng, tier):
    cases = []
    n = {"quick": 120, "thorough": 1500, "search": 600}[tier]
    cobs = [0x185, 0x285, 0x385, 0x485, 0x1FFFFFFF, 0x7FF, 0x800]
    for _ in range(n):
        npairs = rng.randrange(1, NPROD + 1)
        layouts = [rand_layout(rng) for _ in range(npairs)]
        pcobs = [rng.choice(cobs[:3]) if rng.random() < 0.4 else rng.choice(cobs) for _ in range(npairs)]
        maps = []
        for k in range(NPROD):   # producers
            j = k % npairs
            maps.append(dict(cob=pcobs[j], en=True, rtr=rng.random() < 0.7, layout=layouts[j]))
        for k in range(NPROD):   # consumers share the configuration of producer k
            j = k % npairs
            maps.append(dict(cob=pcobs[j], en=rng.random() < 0.85, rtr=rng.random() < 0.7, layout=layouts[j]))
        ops = []
        ts = 1000
        for k in range(NPROD, 2 * NPROD):
            if rng.random() < 0.9: ops.append(["sub", k])
            for cb in range(rng.randrange(0, 3)): ops.append(["cb", k, 10 * k + cb])
        for _ in range(rng.randrange(4, 14)):
            r = rng.random()
            k = rng.randrange(NPROD)
            lay = maps[k]["layout"]
            if r < 0.45:
                var = rng.randrange(len(lay))
                for kind, v in field_values(rng, lay[var][0], lay[var][1], 1):
                    ops.append([kind, k, var, v])
                ts += rng.randrange(1, 50)
                ops.append(["tx", k, ts])
                for kk in range(NPROD, 2 * NPROD):
                    if maps[kk]["layout"] is lay or maps[kk]["layout"] == lay:
                        ops.append(["r", kk, var])
                ops.append(["st", rng.randrange(NPROD, 2 * NPROD)])
                if rng.random() < 0.4:
                    # the consumer side writes one of its own variables after the reception and reads it back
                    kk = NPROD + k
                    v2 = rng.randrange(len(lay))
                    for kind, v in field_values(rng, lay[v2][0], lay[v2][1], 1):
                        ops += [[kind, kk, v2, v], ["r", kk, v2], ["r", kk, var]]
            elif r < 0.55:
                ts += rng.randrange(1, 50)
                ln = rng.choice([len(maps[NPROD]["layout"]), 8, 0, 3])
                ops.append(["frame", rng.choice(pcobs + [0x123]), [rng.randrange(256) for _ in range(ln)], ts])
                ops.append(["st", rng.randrange(NPROD, 2 * NPROD)])
            elif r < 0.65:
                ops.append(["rtr", rng.randrange(2 * NPROD)])
            elif r < 0.75:
                kk = rng.randrange(NPROD, 2 * NPROD)
                ops.append(["cob", kk, rng.choice(cobs), rng.random() < 0.8, rng.random() < 0.5])
                if rng.random() < 0.7: ops.append(["sub", kk])
            elif r < 0.80:
                ops.append(["task", rng.randrange(NPROD, 2 * NPROD), rng.random() < 0.6])
            elif r < 0.84:
                # start() without a period: refused unless a period is known; reception must go on afterwards
                kk = rng.randrange(NPROD, 2 * NPROD)
                ops += [["start0", kk], ["st", kk]]
                if rng.random() < 0.7: ops.append(["task", kk, False])
            elif r < 0.9:
                kk = rng.randrange(NPROD, 2 * NPROD)
                ops.append(["cb", kk, 100 + rng.randrange(50)])
            else:
                kk = rng.randrange(NPROD, 2 * NPROD)
                ops.append(["sub", kk])
        for kk in range(2 * NPROD):
            ops.append(["st", kk])
            ops.append(["r", kk, rng.randrange(len(maps[kk]["layout"]))])
        vias = [rng.choice(["map", "name", "index", "mapname"]) for _ in range(rng.randrange(1, 4))]
        cases.append(dict(kind="link", maps=maps, ops=ops, vias=vias))
    # re-mapping while the application keeps using the PDO collection: both sides change the layout, then exchange again
    for _ in range({"quick": 40, "thorough": 400, "search": 150}[tier]):
        j = rng.randrange(NPROD)
        lay1 = rand_layout(rng)
        r_ = rng.random()
        if r_ < 0.4 and len(lay1) > 1:
            sh = rng.randrange(1, len(lay1)); lay2 = lay1[sh:] + lay1[:sh]      # the same objects at new offsets
        elif r_ < 0.6:
            lay2 = [[U8, rng.randrange(1, 8)]] + lay1 if sum(l for _, l in lay1) <= 56 else lay1[::-1]
        else:
            lay2 = rand_layout(rng)
        cob = rng.choice(cobs[:4])
        maps = [dict(cob=cobs[k % 4] if k % NPROD != j else cob, en=True, rtr=True, layout=(lay1 if k % NPROD == j else [[U8, 8]]))
                for k in range(2 * NPROD)]
        ops = [["sub", NPROD + j]]
        ts = 500
        def exchange(lay):
            nonlocal ts
            out = []
            for var in range(len(lay)):
                for kind, v in field_values(rng, lay[var][0], lay[var][1], 1):
                    out.append([kind, j, var, v])
            ts += 7
            out.append(["tx", j, ts])
            out += [["r", NPROD + j, var] for var in range(len(lay))] + [["st", NPROD + j]]
            return out
        ops += exchange(lay1) + [["remap", j, lay2], ["remap", NPROD + j, lay2]] + exchange(lay2)
        if rng.random() < 0.5:
            ops += [["remap", j, lay1], ["remap", NPROD + j, lay1]] + exchange(lay1)
        cases.append(dict(kind="link", maps=maps, ops=ops, vias=[rng.choice(["name", "index"])]))
    # runtime part: a waiting reader is woken by reception on ITS map from a second thread (oracle only)
    for i in range({"quick": 10, "thorough": 40, "search": 5}[tier]):
        lay = [[U8, 8], [U16, 16]]
        maps = [dict(cob=0x185 + 0x100 * (k % NPROD), en=True, rtr=True, layout=lay) for k in range(2 * NPROD)]
        own, other = 0x185, 0x285
        variant = i % 5
        pre = []
        if variant == 4:      # coarse clock: the awaited frame carries the same timestamp as the previous frame of this map
            pre = [["frame", own, [7, 7, 7], 500 + i]]
            frames, timeout = [[own, [1, 2, 3], 500 + i, 20]], 2.0
        elif variant == 0:      # own frame only
            frames, timeout = [[own, [1, 2, 3], 77 + i, 20]], 2.0
        elif variant == 1:    # a frame for another subscribed map arrives first, then the awaited one
            frames, timeout = [[other, [9, 9, 9], 50 + i, 20], [own, [1, 2, 3], 77 + i, 60]], 2.0
        elif variant == 2:    # only foreign frames: the wait times out
            frames, timeout = [[other, [9, 9, 9], 50 + i, 10], [0x123, [4], 51 + i, 10]], 0.15
        else:                 # two frames for the awaited map: the first one is reported
            frames, timeout = [[own, [1, 2, 3], 77 + i, 20], [own, [4, 5, 6], 99 + i, 30]], 2.0
        ops = [["sub", NPROD], ["sub", NPROD + 1]] + pre + [["wait", NPROD, frames, timeout], ["st", NPROD + 1]]
        cases.append(dict(kind="wait", maps=maps, ops=ops, model=False))
    return cases


def shrink(c):
    ops = c["ops"]
    for i in range(len(ops) - 1, -1, -1):
        yield dict(c, ops=ops[:i] + ops[i + 1:])
