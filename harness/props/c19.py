"""C19 - CiA 402 statusword decoding, commanded transitions and operation modes (canopen/profiles/p402.py).

Implementation side: a real BaseNode402 whose SDO client (node.sdo.upload / download) and, in the PDO
variants, whose RPDO/TPDO traffic are served synchronously by the independent reference drive of
harness/ref/drive402.py.  time.monotonic as seen by p402.py is a deterministic counter, so the
time-outs of the code never depend on the wall clock (they are never reached on conformant runs)."""
import logging, struct

from vlib.obs import S, Err, Abort, guarded, gz, gbool, glist
from ref import drive402 as R

PROP = "C19"
ANCHORS = [('canopen.profiles.p402', 'State402'), ('canopen.profiles.p402', 'OperationMode'), ('canopen.profiles.p402', 'BaseNode402.state'), ('canopen.profiles.p402', 'BaseNode402._next_state'), ('canopen.profiles.p402', 'BaseNode402._change_state'), ('canopen.profiles.p402', 'BaseNode402.op_mode'), ('canopen.profiles.p402', 'BaseNode402.is_op_mode_supported'), ('canopen.profiles.p402', 'BaseNode402.controlword'), ('canopen.profiles.p402', 'BaseNode402.check_statusword'), ('canopen.profiles.p402', 'BaseNode402.statusword')]
MODEL_VO = ["theories/Model/P402.vo"]
COQ_IMPORTS = "From CV Require Import Gen.P402Tables Model.RefDrive Model.P402."
COQ_RUN = "run_p402"
COQ_CASE_TYPE = "p402_case"
RULE = ("cases = (statusword) decodes over all 65536 values by SDO (and a sample by TPDO); (start state, target, schedule of "
        "automatic transitions, extra status bits, controlword transport, statusword transport) assignments to node.state for "
        "all 8 x 8 pairs plus the pseudo targets, every schedule up to length 5 (thorough: 7) for the two states with a pending "
        "automatic transition; (mode, supported-modes mask, displayed mode, confirmation lag, transport) op_mode assignments; "
        "the PDO-routed decodes, assignments and op_mode cases also with the object mapped in two enabled TPDOs of which the drive "
        "sends only one (each in turn), with the controlword / mode RPDO carrying an event timer, with a drive that aborts the "
        "upload of 0x6502 (first time / always, assignment made twice), and (implementation + oracle only) with a drive that "
        "needs 250-350 virtual ms per commanded transition; is_op_mode_supported and next_state_indirect calls; non-trivial = a decode of a non-zero statusword, an assignment with "
        "start != target, an op_mode case with a non-zero mask; distinct by canonical JSON of the case")
EXHAUSTIVE = {"quick": True, "thorough": True}
EXPLANATION = ("all 65536 statuswords and all 8 x 8 (state, target) pairs are run through the implementation and the oracle in "
               "both tiers; schedules, extra bits, masks and transports are sampled as described in the rule")
TRUSTED = ["modelled, not verified: the wall-clock time-outs TIMEOUT_SWITCH_STATE_FINAL / _SINGLE / TIMEOUT_SWITCH_OP_MODE / "
           "TIMEOUT_CHECK_TPDO (the harness replaces time.monotonic in p402.py by a counter; no conformant run reaches a time-out)",
           "modelled, not verified: PdoMap reception (receive_condition, wait_for_reception, period inference); TPDOs are "
           "delivered synchronously with timestamp None so that the TPDO stays event-driven (non-periodic)",
           "the SDO client and PDO variable codecs below node.sdo.upload/download and PdoVariable.raw (covered by C01/C04/C05)"]
ASSUMPTIONS = ["the drive is conformant to the CiA 402 state machine, reacts to a controlword before the next status read, "
               "supports the optional transition 16 (QUICK STOP ACTIVE -> OPERATION ENABLED), and has bit 7 of its last "
               "controlword clear when the assignment starts (fault reset needs a rising edge)",
               "with the statusword in a TPDO, the drive sends the TPDO on every state change and the cached value is in sync "
               "when the assignment starts"]

NODE_ID = 3
UNCOMMANDABLE = (R.NR, R.FRA, R.FLT)
PSEUDO_TARGETS = ["DISABLE VOLTAGE", "UNKNOWN", "START", "operation enabled", ""]

READ_LIMIT = 3000      # no conformant run needs more than a few dozen status reads

_state = {}


class Hang(Exception):
    """the library keeps polling the drive without end (would be an endless loop on a real bus)"""


def _limited(read):
    n = [0]
    def f():
        n[0] += 1
        if n[0] > READ_LIMIT:
            raise Hang(f"more than {READ_LIMIT} reads")
        return read()
    return f


class _Clock:
    """stands in for the `time` module inside p402.py"""
    def __init__(self): self.t, self.step = 0.0, 0.0005
    def monotonic(self):
        self.t += self.step
        return self.t
    def time(self): return self.monotonic()
    def sleep(self, s): self.t += s


def _lib():
    if "lib" in _state:
        return _state["lib"]
    import canopen
    from canopen import objectdictionary as odm
    from canopen.objectdictionary import ODVariable, ODRecord, ODArray, ObjectDictionary
    from canopen.profiles import p402
    logging.disable(logging.CRITICAL)
    p402.time = _Clock()
    od = ObjectDictionary()
    for idx, name, dt in ((0x6040, "Controlword", odm.UNSIGNED16), (0x6041, "Statusword", odm.UNSIGNED16),
                          (0x6060, "Modes of operation", odm.INTEGER8), (0x6061, "Modes of operation display", odm.INTEGER8),
                          (0x6502, "Supported drive modes", odm.UNSIGNED32)):
        v = ODVariable(name, idx)
        v.data_type = dt
        od.add_object(v)
    for base, mapbase in ((0x1400, 0x1600), (0x1800, 0x1A00)):
        for k in range(2):
            rec = ODRecord(f"comm{base + k:X}", base + k)
            for sub, nm, dt in ((0, "n", odm.UNSIGNED8), (1, "COB-ID", odm.UNSIGNED32), (2, "type", odm.UNSIGNED8),
                                (3, "inhibit", odm.UNSIGNED16), (5, "event", odm.UNSIGNED16)):
                m = ODVariable(nm, base + k, sub)
                m.data_type = dt
                rec.add_member(m)
            od.add_object(rec)
            arr = ODArray(f"map{mapbase + k:X}", mapbase + k)
            for sub in range(0, 9):
                m = ODVariable(f"m{sub}", mapbase + k, sub)
                m.data_type = odm.UNSIGNED8 if sub == 0 else odm.UNSIGNED32
                arr.add_member(m)
            od.add_object(arr)

    class Net(canopen.Network):
        def __init__(self):
            super().__init__()
            self.handlers = {}
        def send_message(self, can_id, data, remote=False):
            h = self.handlers.get(can_id)
            if h is not None:
                h(bytes(data))

    _state["lib"] = (canopen, p402, od, Net)
    return _state["lib"]


class _HookDict(dict):
    """node.tpdo_values: looking at the cached value of a hooked index is a status read for the drive"""
    def __init__(self):
        super().__init__()
        self.hooks = {}
    def __getitem__(self, key):
        v = dict.__getitem__(self, key)          # KeyError first: not configured in a TPDO
        h = self.hooks.get(key)
        if h is not None:
            h()
            v = dict.__getitem__(self, key)
        return v


def _make_node(rx=(), tx=(), tx_types=None, rx_timer=None, rx_off=()):
    """rx / tx: object indices carried by RPDO / TPDO (one PDO each; a tuple = several objects in that PDO);
    tx_types: transmission type of each TPDO (default 255, event driven); rx_timer = (transmission type, event
    timer in ms) of the RPDOs (for an RPDO the event timer is the drive's deadline monitoring; the master stays
    the producer and no periodic transmission is started); rx_off = positions in rx whose RPDO is configured but
    disabled (COB-ID bit 31 set: the drive does not consume it, the object must go by SDO); everything else goes by SDO.
    Returns (node, net, sdo_handlers) where sdo_handlers maps index -> (read, write)."""
    canopen, p402, od, Net = _lib()
    p402.time.t, p402.time.step = 0.0, 0.0005
    node = p402.BaseNode402(NODE_ID, od)
    net = Net()
    net.add_node(node)
    node.tpdo_values = _HookDict()
    sdo = {}

    def upload(index, subindex=0):
        rd = sdo[index][0]
        if rd is None: raise KeyError(index)
        return rd()

    def download(index, subindex, data, force_segment=False):
        wr = sdo[index][1]
        if wr is None: raise KeyError(index)
        wr(bytes(data))

    node.sdo.upload = upload
    node.sdo.download = download
    for k, idx in enumerate(rx):
        m = node.rpdo[k + 1]
        m.clear(); m.add_variable(idx)
        m.cob_id = 0x200 + 0x100 * k + NODE_ID; m.enabled = k not in rx_off; m.trans_type = 255
        if rx_timer:
            m.trans_type, m.event_timer = rx_timer
    for k, idx in enumerate(tx):
        m = node.tpdo[k + 1]
        m.clear()
        for i in (idx if isinstance(idx, tuple) else (idx,)):
            m.add_variable(i)
        m.cob_id = 0x180 + 0x100 * k + NODE_ID; m.enabled = True
        m.trans_type = tx_types[k] if tx_types else 255
    if rx or tx:
        node.setup_402_state_machine(read_pdos=False)
    return node, net, sdo


def _tpdo_sender(net, k, fmt):
    cob = 0x180 + 0x100 * k + NODE_ID
    return lambda value: net.notify(cob, bytearray(struct.pack(fmt, value)), None)


# Layouts with the object mapped in TWO enabled TPDOs (the CiA 402 default mapping has the statusword in all of
# them) of which the drive sends only one: the other is enabled but remote-request only (type 253, never
# requested).  case["tpdo"] = 0 / 1 says which one the drive sends.  The last received value counts, whichever
# TPDO carried it, so the expected behaviour is that of the single-TPDO case (same model term).
def _multi_layout(index, other, sent):
    """-> (tx, tx_types, sender factory): TPDO1 = [index], TPDO2 = [other-or-index ..]; `sent` is event driven."""
    fmt = {0x6041: "H", 0x6061: "b"}
    tx = ((index,), (0x6041, 0x6061))
    types = [253, 253]
    types[sent] = 255
    def sender(net):
        cob = 0x180 + 0x100 * sent + NODE_ID
        if sent == 0:
            return lambda value: net.notify(cob, bytearray(struct.pack("<" + fmt[index], value)), None)
        if index == 0x6041:
            return lambda value: net.notify(cob, bytearray(struct.pack("<Hb", value, other)), None)
        return lambda value: net.notify(cob, bytearray(struct.pack("<Hb", other, value)), None)
    return tx, types, sender


# ------------------------------------------------------------------ implementation runs
def _decode_node(via, multi=None):
    key = "dec_" + via + str(multi)
    if key not in _state:
        holder = [0]
        if via == "sdo":
            node, net, sdo = _make_node()
            sdo[0x6041] = (lambda: struct.pack("<H", holder[0]), None)
            _state[key] = (node, holder, None)
        elif multi is None:
            node, net, sdo = _make_node(tx=(0x6041,))
            _state[key] = (node, holder, _tpdo_sender(net, 0, "<H"))
        else:
            tx, types, sender = _multi_layout(0x6041, 3, multi)
            node, net, sdo = _make_node(tx=tx, tx_types=types)
            _state[key] = (node, holder, sender(net))
    return _state[key]


def run_decode(c):
    node, holder, send = _decode_node(c.get("via", "sdo"), c.get("tpdo"))
    holder[0] = c["sw"]
    if send: send(c["sw"])
    return S(node.state)


def run_set(c):
    cw_pdo, sw_pdo = c["cw"] == "pdo", c["sw"] == "pdo"
    # cw = "pdo_off": an RPDO maps the controlword but is disabled, the drive consumes the controlword by SDO only
    # (added after seeded change C19-r6-2: disabled RPDOs registered as controlword carriers)
    cw_off = c["cw"] == "pdo_off"
    rx = (0x6040,) if cw_pdo or cw_off else ()
    off = (0,) if cw_off else ()
    multi = c.get("tpdo") if sw_pdo else None
    rxt = tuple(c["rx_timer"]) if c.get("rx_timer") else None
    if multi is None:
        node, net, sdo = _make_node(rx=rx, tx=(0x6041,) if sw_pdo else (), rx_timer=rxt, rx_off=off)
    else:
        tx, types, sender = _multi_layout(0x6041, 1, multi)
        node, net, sdo = _make_node(rx=rx, tx=tx, tx_types=types, rx_timer=rxt, rx_off=off)
    if c.get("lat"):
        # drive needing lat[0] ms per commanded transition; the clock of p402.py advances lat[1] ms per look
        clock = _lib()[1].time
        clock.step = c["lat"][1] / 1000.0
        d = R.LaggedDrive402(c["start"], c["sched"], c["extra"], lambda: clock.t, c["lat"][0] / 1000.0)
    else:
        d = R.Drive402(c["start"], c["sched"], c["extra"])
    read_status = _limited(d.read_status)
    sdo[0x6041] = (lambda: struct.pack("<H", read_status()), None)
    sdo[0x6040] = (None, lambda data: d.write_controlword(struct.unpack("<H", data)[0]))
    if cw_pdo:
        net.handlers[0x200 + NODE_ID] = lambda data: d.write_controlword(struct.unpack("<H", data[:2])[0])
    if sw_pdo:
        send = _tpdo_sender(net, 0, "<H") if multi is None else sender(net)
        send(d.statusword())                    # the cached statusword is in sync at the start
        d.on_change = send
        node.tpdo_values.hooks[0x6041] = read_status

    def assign():
        node.state = c["target"]
        return None
    r = guarded(assign)
    return [r, list(d.cws), d.state, list(d.trace), d.reads]


def run_opmode(c):
    pdo = c["via"] == "pdo"
    multi = c.get("tpdo") if pdo else None
    rxt = tuple(c["rx_timer"]) if c.get("rx_timer") else None
    if multi is None:
        node, net, sdo = _make_node(rx=(0x6060,) if pdo else (), tx=(0x6061,) if pdo else (), rx_timer=rxt)
    else:
        tx, types, sender = _multi_layout(0x6061, 0x0237, multi)
        node, net, sdo = _make_node(rx=(0x6060,), tx=tx, tx_types=types, rx_timer=rxt)
    m = R.ModeDrive(c["support"], c["display"], c["lag"])
    read_display = _limited(m.read_display)
    ab = c.get("abort")           # {"when": "first" | "always", "code": abort code}: the drive aborts the upload of 0x6502
    nsup = [0]

    def read_support():
        nsup[0] += 1
        if ab and (ab["when"] == "always" or nsup[0] == 1):
            raise _lib()[0].sdo.SdoAbortedError(ab["code"])
        return struct.pack("<L", m.read_support())
    sdo[0x6502] = (read_support, None)
    sdo[0x6061] = (lambda: struct.pack("<b", read_display()), None)
    sdo[0x6060] = (None, lambda data: m.write_mode(struct.unpack("<b", data)[0]))
    if pdo:
        net.handlers[0x200 + NODE_ID] = lambda data: m.write_mode(struct.unpack("<b", data[:1])[0])
        send = _tpdo_sender(net, 0, "<b") if multi is None else sender(net)
        send(m.display)
        m.on_change = send
        node.tpdo_values.hooks[0x6061] = read_display

    def assign():
        node.op_mode = c["mode"]
        return None
    r = guarded(assign)
    if ab:
        r2 = guarded(assign)      # the same assignment once more, after the aborted one
        return [r, r2, list(m.writes), m.reads]
    return [r, list(m.writes), m.reads]


def run_supported(c):
    node, net, sdo = _make_node()
    sdo[0x6502] = (lambda: struct.pack("<L", c["support"]), None)
    return guarded(lambda: bool(node.is_op_mode_supported(c["mode"])))


def run_indirect(c):
    _, p402, _, _ = _lib()
    def f():
        r = p402.State402.next_state_indirect(c["from"])
        return None if r is None else S(r)
    return guarded(f)


def impl(c):
    k = c["kind"]
    if k == "decode": return guarded(run_decode, c)
    if k == "set": return run_set(c)
    if k == "opmode": return run_opmode(c)
    if k == "supported": return run_supported(c)
    if k == "indirect": return run_indirect(c)
    raise ValueError(k)


# ------------------------------------------------------------------ oracle (CiA 402, via the reference drive only)
def _lay(c):
    t = "" if c.get("tpdo") is None else f" [object mapped in TPDO1 and TPDO2, drive sends TPDO{c['tpdo'] + 1}]"
    if c.get("rx_timer"):
        t += f" [RPDO transmission type {c['rx_timer'][0]}, event timer {c['rx_timer'][1]} ms]"
    if c.get("lat"):
        t += f" [drive needs {c['lat'][0]} ms per commanded transition, clock advances {c['lat'][1]} ms per look]"
    if c.get("abort"):
        t += f" [drive aborts the {c['abort']['when']} upload of 0x6502 with {c['abort']['code']:#010x}]"
    return t


def oracle(c, o):
    k = c["kind"]
    if k == "decode":
        exp = R.cia_decode(c["sw"])
        if exp == "AMBIGUOUS":
            return ("patterns_not_exclusive", f"statusword {c['sw']:#06x} matches {R.cia_states_of(c['sw'])}")
        if o != S(exp):
            return ("decode_wrong", f"statusword {c['sw']:#06x} ({c.get('via', 'sdo')}{_lay(c)}) reported as {o!r}, CiA 402 says {exp}")
        return None
    if k == "set":
        if c["target"] not in R.NAMES:
            return None
        t = R.NAMES.index(c["target"])
        res, cws, final, trace, reads = o
        tr = f"{R.NAMES[c['start']]} -> {c['target']} sched={c['sched']} extra={c['extra']:#x} cw/{c['cw']} sw/{c['sw']}{_lay(c)}"
        if t in R.COMMANDABLE:
            if isinstance(res, Err):
                return ("commanded_transition_fails", f"{tr}: raised {res!r}; controlwords {cws}, drive ends in {R.NAMES[final]}")
            if final != t:
                return ("target_not_reached", f"{tr}: drive ends in {R.NAMES[final]}; controlwords {cws}")
            if t not in (R.OE, R.QSA):
                if any(R.enables_operation(w) for w in cws) or R.OE in trace:
                    return ("operation_enabled_unasked", f"{tr}: controlwords {cws}, states entered {[R.NAMES[s] for s in trace]}")
            return None
        # uncommandable target: refused before any controlword is sent, unless the drive is already
        # in the target at the first status read (then the assignment is a no-op)
        fire = c["sched"][0] if c["sched"] else True
        first = c["start"]
        if fire:
            first = {R.NR: R.SOD, R.FRA: R.FLT}.get(first, first)
        if cws:
            return ("uncommandable_target_commanded", f"{tr}: controlwords {cws} were sent")
        if first != t and not isinstance(res, Err):
            return ("uncommandable_target_accepted", f"{tr}: returned without error")
        return None
    if k == "opmode":
        if c["mode"] not in R.MODES:
            return None
        code, bit = R.MODES[c["mode"]]
        adv = bit is None or (c["support"] >> bit) & 1 == 1
        what = f"mode {c['mode']} support={c['support']:#x} display={c['display']} lag={c['lag']} via {c['via']}{_lay(c)}"
        if c.get("abort"):
            # first assignment: the supported-modes object could not be read; second: the drive advertises `support`
            if c["abort"]["when"] != "first":
                return None
            r1, r2, writes, reads = o
            if not adv:
                if writes or not isinstance(r2, (Err, Abort)):
                    return ("unadvertised_mode_accepted", f"{what}: results {r1!r}, {r2!r}, written {writes}")
            elif not writes or any(w != code for w in writes):
                return ("mode_code_wrong", f"{what}: written {writes}, CiA 402 code is {code}")
            return None
        res, writes, reads = o
        if not adv:
            if writes or not isinstance(res, (Err, Abort)):
                return ("unadvertised_mode_accepted", f"{what}: result {res!r}, written {writes}")
            return None
        if writes != [code]:
            return ("mode_code_wrong", f"{what}: written {writes}, CiA 402 code is {code}")
        if isinstance(res, Err) and c["display"] in [v[0] for v in R.MODES.values()]:
            return ("supported_mode_refused", f"{what}: raised {res!r}")
        return None
    if k == "supported":
        if c["mode"] not in R.MODES:
            return None
        code, bit = R.MODES[c["mode"]]
        adv = bit is None or (c["support"] >> bit) & 1 == 1
        if o is not adv:
            return ("supported_wrong", f"mode {c['mode']} support={c['support']:#x}: {o!r}, advertised={adv}")
        return None
    return None


# ------------------------------------------------------------------ Gallina printing
def gcoqstr(s):
    assert all(32 <= ord(ch) < 127 for ch in s), s
    return '"' + s.replace('"', '""') + '"%string'


def coq_case(c):
    k = c["kind"]
    if k == "decode": return f"CDecode {gz(c['sw'])}"
    if k == "indirect": return f"CIndirect {gcoqstr(c['from'])}"
    if k == "set":
        return (f"CSet {gbool(c['sw'] == 'pdo')} {gz(c['start'])} {gcoqstr(c['target'])} "
                f"{glist([gbool(b) for b in c['sched']])} {gz(c['extra'])}")
    if k == "opmode" and c.get("abort"):
        return (f"COpModeAbort {gbool(c['abort']['when'] == 'always')} {gz(c['abort']['code'])} {gcoqstr(c['mode'])} "
                f"{gz(c['support'])} {gz(c['display'])} {c['lag']}%nat")
    if k == "opmode":
        return f"COpMode {gcoqstr(c['mode'])} {gz(c['support'])} {gz(c['display'])} {c['lag']}%nat"
    if k == "supported": return f"CSupported {gcoqstr(c['mode'])} {gz(c['support'])}"
    raise ValueError(k)


def nontrivial(c):
    k = c["kind"]
    if k == "decode": return c["sw"] != 0
    if k == "set": return c["target"] != R.NAMES[c["start"]]
    if k in ("opmode", "supported"): return c["support"] != 0
    return True


# ------------------------------------------------------------------ generators
def all_scheds(n):
    out = [[]]
    for l in range(1, n + 1):
        for v in range(1 << l):
            out.append([(v >> i) & 1 for i in range(l)])
    return out


EXTRAS = [0, 0x8000 | 0x0400 | 0x0010, 0x0080, 0xFF90, 0xFFFF, 0x0020, 0x1234]
VALID_CODES = [v[0] for v in R.MODES.values()]
OTHER_MODES = ["OPEN LOOP SCALAR MODE", "OPEN LOOP VECTOR MODE", "homing", "", "NO MODE "]


def gen_cases(rng, tier):
    cases = []
    # ---- statuswords: all 65536 through the oracle; the model on the ones listed here
    highs = (0xFF,) if tier == "quick" else (0x80, 0xFF, 0x12)
    modelled = set(range(0, 256)) | {(h << 8) | l for h in highs for l in range(256)}
    modelled |= {rng.randrange(65536) for _ in range({"quick": 150, "thorough": 3000, "search": 0}[tier])}
    if tier == "search":
        cases += [dict(kind="decode", sw=sw, model=False) for sw in range(0, 65536)]
    else:
        cases += [dict(kind="decode", sw=sw, model=(sw in modelled)) for sw in range(0, 65536)]
    step = {"quick": 61, "thorough": 7, "search": 257}[tier]
    cases += [dict(kind="decode", sw=sw, via="pdo", model=(tier != "search" and sw % (step * 5) < step))
              for sw in range(0, 65536, step)]
    cases += [dict(kind="decode", sw=sw, via="pdo") for sw in range(0, 256)]

    # ---- assignments to node.state
    targets = list(R.NAMES) + PSEUDO_TARGETS[:2]
    transports = [("sdo", "sdo"), ("pdo", "pdo"), ("sdo", "pdo"), ("pdo", "sdo")]
    base_scheds = [[], [0], [1], [0, 0, 1], [0, 0, 0, 0, 0, 0, 1]]
    for start in range(8):
        for tgt in targets:
            for cw, sw in transports:
                for sched in base_scheds:
                    if tier == "quick" and (cw, sw) in transports[2:] and len(sched) > 1:
                        continue
                    for extra in (EXTRAS[:4] if tier == "thorough" else
                                  [EXTRAS[0], rng.choice(EXTRAS[1:])] if len(sched) <= 1 else [rng.choice(EXTRAS)]):
                        cases.append(dict(kind="set", cw=cw, sw=sw, start=start, target=tgt, sched=list(sched), extra=extra))
    # controlword RPDO configured but disabled: the library must fall back to SDO (same expectations as cw = "sdo")
    for start in range(8):
        for tgt in targets:
            for sw in ("sdo", "pdo"):
                for sched in (base_scheds if tier != "quick" else base_scheds[:3]):
                    cases.append(dict(kind="set", cw="pdo_off", sw=sw, start=start, target=tgt, sched=list(sched),
                                      extra=rng.choice(EXTRAS)))
    depth = {"quick": 5, "thorough": 7, "search": 6}[tier]
    for start in (R.NR, R.FRA):
        for tgt in R.NAMES + PSEUDO_TARGETS[:1]:
            for sched in all_scheds(depth):
                tr = transports[:2] if tier != "quick" else [transports[len(sched) % 2]]
                for cw, sw in tr:
                    cases.append(dict(kind="set", cw=cw, sw=sw, start=start, target=tgt, sched=sched,
                                      extra=rng.choice(EXTRAS)))
    # long waits before the automatic transition fires (every program point of the setter)
    for start in (R.NR, R.FRA):
        for tgt in R.NAMES:
            for k in range(6, {"quick": 31, "thorough": 60, "search": 40}[tier]):
                cw, sw = transports[k % 2] if tier == "quick" else transports[k % 4]
                cases.append(dict(kind="set", cw=cw, sw=sw, start=start, target=tgt, sched=[0] * k + [1, 0, 1],
                                  extra=rng.choice(EXTRAS)))
    for _ in range({"quick": 200, "thorough": 3000, "search": 1500}[tier]):
        cw, sw = rng.choice(transports)
        n = rng.choice([0, 1, 2, 3, 5, 9, 14, 20])
        p = rng.choice([0.1, 0.5, 0.9])
        cases.append(dict(kind="set", cw=cw, sw=sw, start=rng.choice([R.NR, R.FRA, rng.randrange(8)]),
                          target=rng.choice(targets + PSEUDO_TARGETS[2:]),
                          sched=[int(rng.random() < p) for _ in range(n)], extra=rng.randrange(65536)))

    # statusword mapped in two enabled TPDOs, the drive sends only one of them (each in turn)
    for sent in (0, 1):
        for start in range(8):
            for tgt in R.NAMES:
                for cw in (("pdo",) if tier == "quick" else ("pdo", "sdo")):
                    for sched in ([[], [0, 0, 1]] if start in (R.NR, R.FRA) else [[]]):
                        cases.append(dict(kind="set", cw=cw, sw="pdo", tpdo=sent, start=start, target=tgt, sched=list(sched),
                                          extra=rng.choice(EXTRAS)))
        for start in (R.NR, R.FRA):
            for tgt in R.NAMES[1:6]:
                for sched in all_scheds(3 if tier == "quick" else 5):
                    cases.append(dict(kind="set", cw="pdo", sw="pdo", tpdo=sent, start=start, target=tgt, sched=sched,
                                      extra=rng.choice(EXTRAS)))
        mstep = {"quick": 509, "thorough": 53, "search": 257}[tier]
        cases += [dict(kind="decode", sw=sw, via="pdo", tpdo=sent, model=(tier != "search" and sw % 4 == 0))
                  for sw in list(range(0, 256)) + list(range(256, 65536, mstep))]

    # controlword in an RPDO that has an event timer (deadline monitoring in the drive; the master still has to send it)
    for rxt in ([255, 100], [254, 20]):
        for start in range(8):
            for tgt in R.NAMES:
                for sw in (("pdo", "sdo") if tier != "quick" or (start + len(tgt)) % 2 else ("sdo",)):
                    cases.append(dict(kind="set", cw="pdo", sw=sw, rx_timer=rxt, start=start, target=tgt,
                                      sched=[0, 1] if start in (R.NR, R.FRA) else [], extra=rng.choice(EXTRAS)))
    # a drive that needs time for every commanded transition, less than TIMEOUT_SWITCH_STATE_SINGLE (0.4 s) per step but
    # more than TIMEOUT_SWITCH_STATE_FINAL (0.8 s) on a long path: every step makes progress, so the assignment succeeds.
    # Implementation + oracle only (the model's drive reacts at once).
    for lat in ([300, 20], [350, 20], [250, 10], [300, 50]) if tier != "quick" else ([300, 20], [350, 20], [300, 50]):
        for start in range(8):
            for tgt in R.NAMES:
                cw, sw = transports[(start + len(tgt) + lat[0]) % 2] if tier == "quick" else transports[(start + lat[1]) % 4]
                cases.append(dict(kind="set", cw=cw, sw=sw, lat=lat, start=start, target=tgt, model=False,
                                  sched=[0, 0, 1] if start in (R.NR, R.FRA) else [], extra=rng.choice(EXTRAS)))

    # ---- operation modes
    masks = [0, 0x3FF, 0xFFFFFFFF, 0x10, 0xFFFFFFEF] + [1 << b for b in range(0, 11)] + [0x3FF ^ (1 << b) for b in range(0, 10)]
    masks += [rng.getrandbits(32) for _ in range({"quick": 10, "thorough": 100, "search": 40}[tier])]
    for mode in list(R.MODES) + OTHER_MODES:
        for support in masks:
            cases.append(dict(kind="supported", mode=mode, support=support))
            via = "sdo" if (support & 1) ^ (len(mode) & 1) else "pdo"
            for v in ([via] if tier == "quick" else ["sdo", "pdo"]):
                cases.append(dict(kind="opmode", via=v, mode=mode, support=support, display=rng.choice(VALID_CODES),
                                  lag=rng.choice([0, 0, 1, 2, 5])))
    if tier == "thorough":
        # all masks over the ten defined bits, through the oracle (the model on every 16th)
        for mode in R.MODES:
            for support in range(0, 1024):
                cases.append(dict(kind="supported", mode=mode, support=support, model=(support % 16 == 5)))
    # mode display mapped in two enabled TPDOs, the drive sends only one of them
    for sent in (0, 1):
        for mode in R.MODES:
            for support in masks[:5] + [rng.choice(masks[5:26])]:
                cases.append(dict(kind="opmode", via="pdo", tpdo=sent, mode=mode, support=support,
                                  display=rng.choice(VALID_CODES), lag=rng.choice([0, 1, 2])))
    # the drive aborts the upload of the (optional) supported-modes object 0x6502, the first time only or always;
    # the assignment is made twice
    for mode in R.MODES:
        for support in masks[:3] + [m_ for m_ in masks[5:26] if rng.random() < (0.35 if tier == "quick" else 1.0)]:
            for when in ("first", "always"):
                cases.append(dict(kind="opmode", via=rng.choice(["sdo", "pdo"]), mode=mode, support=support,
                                  abort=dict(when=when, code=rng.choice([0x06020000, 0x08000022, 0x06010000])),
                                  display=rng.choice(VALID_CODES), lag=rng.choice([0, 1, 2])))
    # mode of operation in an RPDO with an event timer
    for rxt in ([255, 100], [254, 20]):
        for mode in R.MODES:
            for support in masks[:3] + [rng.choice(masks[5:26])]:
                cases.append(dict(kind="opmode", via="pdo", rx_timer=rxt, mode=mode, support=support,
                                  display=rng.choice(VALID_CODES), lag=rng.choice([0, 1])))
    for mode in R.MODES:
        for via in ("sdo", "pdo"):
            for display in VALID_CODES + [-1, 5]:
                cases.append(dict(kind="opmode", via=via, mode=mode, support=0xFFFFFFFF, display=display, lag=rng.choice([0, 1, 3])))

    # ---- next_state_indirect (model correspondence only)
    for s in R.NAMES + ["START", "UNKNOWN", "", "FAULT REACTION", "READY", "SWITCH ON", "ON", "T", "DISABLE VOLTAGE",
                        "SWITCHED ON ", "NOT READY"]:
        cases.append(dict(kind="indirect", **{"from": s}))
    return cases


def shrink(c):
    if c["kind"] == "set":
        s = c["sched"]
        for i in range(len(s)):
            yield dict(c, sched=s[:i] + s[i + 1:])
        if c["extra"]:
            yield dict(c, extra=0)
        if c["cw"] != "sdo":
            yield dict(c, cw="sdo")
        if c["sw"] != "sdo":
            yield dict(c, sw="sdo")
        for key in ("tpdo", "rx_timer", "lat"):
            if c.get(key) is not None:
                yield {k: v for k, v in c.items() if k != key}
    elif c["kind"] == "opmode":
        if c["lag"]:
            yield dict(c, lag=0)
        if c["via"] != "sdo":
            yield dict(c, via="sdo")
        for key in ("tpdo", "rx_timer"):
            if c.get(key) is not None:
                yield {k: v for k, v in c.items() if k != key}
        for b in range(32):
            if c["support"] >> b & 1:
                yield dict(c, support=c["support"] & ~(1 << b))


def neighbours(c, rng):
    if c["kind"] == "set":
        for start in range(8):
            for tgt in R.NAMES:
                for sched in ([], [0], [0, 0], [0, 0, 0], [1], [0, 1], [0, 0, 1], [0, 0, 0, 1], [0, 0, 0, 0, 1]):
                    yield dict(c, start=start, target=tgt, sched=sched)
    elif c["kind"] in ("opmode", "supported"):
        for mode in R.MODES:
            for b in range(11):
                yield dict(c, mode=mode, support=1 << b)
                yield dict(c, mode=mode, support=0x3FF ^ (1 << b))
    elif c["kind"] == "decode":
        for sw in range(256):
            yield dict(c, sw=sw | (c["sw"] & 0xFF00))
