"""C03 - typed values survive the client -> bus -> server -> client round trip."""
import logging, math, queue, random, threading, time
from vlib.obs import S, Err, guarded, gz, gzlist, glist, gbool
from props import c01 as _c01     # recorder of the raw-stream calls of io.BufferedWriter (write schedule of the model)
from props.c04 import (INT_TYPES, BOOLEAN, REAL32, REAL64, REALS, VISIBLE, OCTET, UNICODE, DOMAIN,
                       bits_to_float, float_to_bits, rng_of, boundary_values, REAL_BITS)

PROP = "C03"
MODEL_VO = ["theories/Model/SdoLink.vo"]
COQ_IMPORTS = ("From CV Require Import Model.Codec Model.SdoServer Model.SdoLink.\nImport ListNotations.\nOpen Scope Z_scope.\n"
               "Definition the_dict : ndict := %s.")      # completed at the end of the module
COQ_RUN = "run_sdolink"
COQ_CASE_TYPE = "sdolink_case"
ANCHORS = [("canopen.variable", "Variable.raw"), ("canopen.sdo.base", "SdoVariable"), ("canopen.sdo.base", "SdoBase.__getitem__"),
           ("canopen.sdo.client", "SdoClient.upload"), ("canopen.sdo.client", "SdoClient.download"),
           ("canopen.sdo.client", "SdoClient.request_response"), ("canopen.sdo.client", "ReadableStream"),
           ("canopen.sdo.client", "WritableStream"), ("canopen.sdo.server", "SdoServer"),
           ("canopen.node.local", "LocalNode.get_data"), ("canopen.node.local", "LocalNode.set_data"),
           ("canopen.node.local", "LocalNode._find_object"), ("canopen.objectdictionary", "ODVariable.encode_raw"),
           ("canopen.objectdictionary", "ODVariable.decode_raw"), ("canopen.network", "Network.notify")]
RULE = ("case = a batch of (access spelling, data type, value) items written through RemoteNode.sdo[...] to a LocalNode on the same "
        "bus and read back from both sides, under one delivery mode (inline / dispatcher thread with seeded delays and unrelated "
        "traffic / python-can virtual bus), or a concurrency case with 1..8 client threads on distinct nodes; values: range ends "
        "+-2, powers of two +-2, random, BOOLEAN, REAL bit patterns, strings and DOMAIN of length 0..200; non-trivial = a batch with "
        "at least one multi-segment value or a concurrency case with >= 2 threads; thorough: all values of the 8/16-bit types")
TRUSTED = ["modelled, not verified: thread scheduling, queue.Queue and lock semantics, python-can's virtual bus and notifier threads "
           "(schedule independence is proved at the level of frame sequences per COB-ID only)"]
ASSUMPTIONS = ["the bus delivers every frame to the subscribers of its CAN id, in order per sender"]

logging.disable(logging.CRITICAL)
NUMERIC = list(INT_TYPES)


def mname(dt):
    """member names: every second one contains dots itself, as EDS abbreviations do ('Max. speed'); the
    qualified name 'Rec.<member>' is split at the FIRST dot only"""
    return f"m{dt}" if dt % 2 else f"m. {dt} (no. {dt})"


def make_od():
    from canopen import objectdictionary as odm
    od = odm.ObjectDictionary()
    for dt in NUMERIC + [BOOLEAN, REAL32, REAL64, VISIBLE, OCTET, UNICODE, DOMAIN]:
        v = odm.ODVariable(f"var{dt}", 0x2000 + dt, 0)
        v.data_type = dt
        od.add_object(v)
    rec = odm.ODRecord("Rec", 0x3000)
    sub0 = odm.ODVariable("n", 0x3000, 0); sub0.data_type = odm.UNSIGNED8; rec.add_member(sub0)
    for i, dt in enumerate(NUMERIC + [BOOLEAN, REAL32, REAL64, VISIBLE, OCTET, UNICODE, DOMAIN]):
        v = odm.ODVariable(mname(dt), 0x3000, i + 1)
        v.data_type = dt
        rec.add_member(v)
    od.add_object(rec)
    return od


def member_sub(dt):
    return (NUMERIC + [BOOLEAN, REAL32, REAL64, VISIBLE, OCTET, UNICODE, DOMAIN]).index(dt) + 1


def py_value(dt, v):
    if dt in REALS: return bits_to_float(v["bits"], *REALS[dt])
    if dt in (VISIBLE, UNICODE): return "".join(chr(x) for x in v["str"])
    if dt in (OCTET, DOMAIN): return bytes(v["bytes"])
    if dt == BOOLEAN: return bool(v)
    return v


def canon(dt, r):
    """observation form (printable as a Coq val): int, [bits] for REAL, S(text), bytes"""
    if isinstance(r, float):
        return [float_to_bits(r, *REALS[dt])] if not math.isnan(r) else [S("nan")]
    if isinstance(r, str): return S(r)
    if isinstance(r, (bytes, bytearray)): return bytes(r)
    if isinstance(r, bool): return int(r)
    return r


def obs_form(dt, v):
    """the observation form of a case value (same demand as before, other spelling)"""
    if dt in REALS: return [v["bits"]]
    if dt in (VISIBLE, UNICODE): return S("".join(chr(x) for x in v["str"]))
    if dt in (OCTET, DOMAIN): return bytes(v["bytes"])
    if dt == BOOLEAN: return 1 if v else 0
    return v


def cia301_bytes(dt, v):
    """independent CiA 301 encoding"""
    if dt in INT_TYPES:
        s, w = INT_TYPES[dt]
        return v.to_bytes(w // 8, "little", signed=s)
    if dt == BOOLEAN: return bytes([1 if v else 0])
    if dt in REALS: return v["bits"].to_bytes(4 if dt == REAL32 else 8, "little")
    if dt == VISIBLE: return bytes(v["str"])
    if dt == UNICODE:
        out = b""
        for x in v["str"]:
            if x < 0x10000: out += x.to_bytes(2, "little")
            else:
                x -= 0x10000
                out += (0xD800 + (x >> 10)).to_bytes(2, "little") + (0xDC00 + (x & 0x3FF)).to_bytes(2, "little")
        return out
    return bytes(v["bytes"])


SLOW_DELAY, SLOW_TIMEOUT = 0.4, 6.0


class Bus:
    """One of four delivery modes."""
    def __init__(self, mode, seed):
        import canopen
        self.mode, self.frames = mode, []
        outer = self
        rng = random.Random(seed)

        class Inline(canopen.Network):
            def send_message(self, can_id, data, remote=False):
                outer.frames.append([can_id, bytes(data)])
                self.notify(can_id, bytearray(data), 0.0)

        class Deferred(canopen.Network):
            def send_message(self, can_id, data, remote=False):
                outer.q.put((can_id, bytes(data)))

        if mode == "inline":
            self.net_l = self.net_r = Inline()
        elif mode in ("thread", "slow"):
            self.q = queue.Queue()
            self.net_l = self.net_r = Deferred()
            self.stop = False
            def pump():
                while not self.stop:
                    try:
                        can_id, data = self.q.get(timeout=0.01)
                    except queue.Empty:
                        continue
                    if mode == "slow":
                        # a slow device: every response takes longer than the library's DEFAULT response time-out
                        # (0.3 s) but far less than the time-out the application configured on the client
                        if can_id & 0x780 == 0x580:
                            time.sleep(SLOW_DELAY)
                        self.net_l.notify(can_id, bytearray(data), 0.0)
                        continue
                    if rng.random() < 0.5:
                        time.sleep(rng.random() * 0.001)
                    # unrelated traffic interleaved with the transfer
                    for _ in range(rng.randrange(0, 3)):
                        fid = rng.choice([0x181, 0x701, 0x80, 0x5FF, 0x67F, 0x000])
                        try:
                            self.net_l.notify(fid, bytearray(rng.randbytes(rng.randrange(0, 9))), 0.0)
                        except Exception:
                            pass
                    self.net_l.notify(can_id, bytearray(data), 0.0)
            self.th = threading.Thread(target=pump, daemon=True)
            self.th.start()
        else:
            ch = f"c03-{seed}-{id(self)}"
            self.net_l, self.net_r = canopen.Network(), canopen.Network()
            self.net_l.connect(interface="virtual", channel=ch, receive_own_messages=False)
            self.net_r.connect(interface="virtual", channel=ch, receive_own_messages=False)

    def close(self):
        if self.mode in ("thread", "slow"):
            self.stop = True
            self.th.join()
        elif self.mode == "vbus":
            self.net_l.disconnect()
            self.net_r.disconnect()


def setup(mode, seed, node_ids):
    import canopen
    bus = Bus(mode, seed)
    od = make_od()
    pairs = []
    for nid in node_ids:
        loc = canopen.LocalNode(nid, od)
        rem = canopen.RemoteNode(nid, od)
        loc.associate_network(bus.net_l)
        rem.associate_network(bus.net_r)
        # the application's own setting of the documented attribute (the class default is 0.3 s)
        rem.sdo.RESPONSE_TIMEOUT = SLOW_TIMEOUT if mode == "slow" else 1.0
        pairs.append((loc, rem))
    return bus, pairs


def accessor(node_sdo, access, dt):
    if access == "index": return node_sdo[0x2000 + dt]
    if access == "name": return node_sdo[f"var{dt}"]
    if access == "member": return node_sdo[f"Rec.{mname(dt)}"]
    if access == "record": return node_sdo[0x3000][member_sub(dt)]
    raise ValueError(access)


_SCHED = {}


def _ckey(c):
    import json
    return json.dumps(c, sort_keys=True)


def impl(c):
    _c01.install()
    if c["kind"] == "rt":
        def run():
            bus, pairs = setup(c["mode"], c.get("seed", 0), [5])
            try:
                loc, rem = pairs[0]
                out = []
                scheds = []
                for access, dt, v in c["items"]:
                    def one():
                        del _c01.REC[:]
                        try:
                            accessor(rem.sdo, access, dt).raw = py_value(dt, v)
                        finally:
                            scheds.append([r[1] for r in _c01.REC if r[0] == "W"])
                        back = canon(dt, accessor(rem.sdo, access, dt).raw)
                        local = canon(dt, accessor(loc.sdo, access, dt).raw)
                        idx, sub = (0x3000, member_sub(dt)) if access in ("member", "record") else (0x2000 + dt, 0)
                        stored = bytes(loc.data_store[idx][sub])
                        return [back, local, stored]
                    out.append(guarded(one))
                    if c["mode"] != "inline" and sum(isinstance(x, Err) for x in out) >= 2:
                        break       # the batch has failed already; every further failure costs time-outs
                if c["mode"] == "inline" and c.get("trace"):
                    out.append([[f[0], f[1]] for f in bus.frames])
                _SCHED[_ckey(c)] = scheds
                return out
            finally:
                bus.close()
        return guarded(run)
    if c["kind"] == "conc":
        def run():
            n = c["nthreads"]
            bus, pairs = setup(c["mode"], c["seed"], list(range(1, n + 1)))
            bad = [0] * n
            errs = [None] * n
            def worker(i):
                rng = random.Random(c["seed"] * 100 + i)
                loc, rem = pairs[i]
                try:
                    for j in range(c["per"]):
                        ln = rng.choice([0, 1, 4, 5, 7, 8, 14, 15, rng.randrange(0, 201)])
                        data = bytes([(i * 37 + j * 11 + k) & 0xFF for k in range(ln)])
                        rem.sdo[0x2000 + DOMAIN].raw = data
                        if bytes(rem.sdo[0x2000 + DOMAIN].raw) != data or bytes(loc.data_store[0x2000 + DOMAIN][0]) != data:
                            bad[i] += 1
                        v = rng.randrange(-2 ** 31, 2 ** 31)
                        rem.sdo["var4"].raw = v
                        if rem.sdo["var4"].raw != v:
                            bad[i] += 1
                except Exception as e:  # noqa: BLE001
                    errs[i] = f"{type(e).__name__}: {e}"
            import sys
            old_si = sys.getswitchinterval()
            try:
                # provoke many more thread switches than CPython's default 5 ms interval gives
                sys.setswitchinterval(1e-5 if c["seed"] % 2 else 1e-6)
                ths = [threading.Thread(target=worker, args=(i,)) for i in range(n)]
                for t in ths: t.start()
                for t in ths: t.join()
            finally:
                sys.setswitchinterval(old_si)
                bus.close()
            return [bad, [S(e) if e else None for e in errs]]
        return guarded(run)
    raise ValueError(c["kind"])


def oracle(c, o):
    if isinstance(o, Err):
        return ("roundtrip_crash", repr(o))
    if c["kind"] == "rt":
        for (access, dt, v), r in zip(c["items"], o):
            where = f"mode {c['mode']} access {access} type 0x{dt:X} value {str(v)[:80]}"
            if isinstance(r, Err) or not isinstance(r, list):
                return ("roundtrip_raised", f"{where}: {r!r}")
            back, local, stored = r
            exp = obs_form(dt, v)
            if dt in REALS and math.isnan(bits_to_float(v["bits"], *REALS[dt])):
                exp = back = local = None
            if back != exp:
                return ("remote_readback_differs", f"{where}: remote read {back!r}")
            if local != exp:
                return ("local_readback_differs", f"{where}: local read {local!r}")
            if stored != cia301_bytes(dt, v):
                return ("stored_bytes_not_cia301", f"{where}: local node holds {stored.hex()}, CiA 301 encoding is {cia301_bytes(dt, v).hex()}")
        return None
    bad, errs = o
    if any(e is not None for e in errs):
        return ("concurrent_transfer_failed", f"mode {c['mode']} {c['nthreads']} threads: {[e for e in errs if e]!r}"[:300])
    if any(bad):
        return ("concurrent_transfers_cross_talk", f"mode {c['mode']} {c['nthreads']} threads: mismatches per thread {bad}")
    return None


# ---- Gallina printing (inline round-trip cases) ----
def gname(t):
    return gzlist([ord(ch) for ch in t])


def gvar(dt):
    return "(mkVar (Some %s) [114; 119] None None)" % gz(dt)      # access_type "rw", no default, no value


def gdict():
    ents = []
    for dt in ALLT:
        ents.append("(%d, NVar {| nv_name := %s; nv_index := %d; nv_sub := 0; nv_var := %s |})"
                    % (0x2000 + dt, gname(f"var{dt}"), 0x2000 + dt, gvar(dt)))
    ms = ["{| nv_name := %s; nv_index := 12288; nv_sub := 0; nv_var := %s |}" % (gname("n"), gvar(5))]
    for i, dt in enumerate(ALLT):
        ms.append("{| nv_name := %s; nv_index := 12288; nv_sub := %d; nv_var := %s |}" % (gname(mname(dt)), i + 1, gvar(dt)))
    ents.append("(12288, NRec %s %s)" % (gname("Rec"), glist(ms)))
    return glist(ents)


def gaccess(access, dt):
    if access == "index": return "(AIndex %d)" % (0x2000 + dt)
    if access == "name": return "(AName %s)" % gname(f"var{dt}")
    if access == "member": return "(AName %s)" % gname(f"Rec.{mname(dt)}")
    if access == "record": return "(ARec 12288 %d)" % member_sub(dt)
    raise ValueError(access)


def gpyval(dt, v):
    if dt in REALS: return "(PFloat %s)" % gz(v["bits"])
    if dt in (VISIBLE, UNICODE): return "(PStr %s)" % gzlist(v["str"])
    if dt in (OCTET, DOMAIN): return "(PBytes %s)" % gzlist(v["bytes"])
    if dt == BOOLEAN: return "(PInt %d)" % (1 if v else 0)
    return "(PInt %s)" % gz(v)


def coq_case(c):
    assert c["kind"] == "rt" and c["mode"] == "inline"
    if _ckey(c) not in _SCHED:
        impl(c)
    scheds = _SCHED[_ckey(c)]
    items = ["{| li_acc := %s; li_val := %s; li_sched := %s |}" % (gaccess(a, dt), gpyval(dt, v), gzlist(sc))
             for (a, dt, v), sc in zip(c["items"], scheds)]
    return ("{| lc_dict := the_dict; lc_node := 5; lc_trace := %s; lc_items := %s |}"
            % (gbool(bool(c.get("trace"))), glist(items)))


def nontrivial(c):
    if c["kind"] == "conc": return c["nthreads"] >= 2
    return any(len(cia301_bytes(dt, v)) > 7 for _, dt, v in c["items"])


def rand_value(rng, dt):
    if dt in INT_TYPES:
        lo, hi = rng_of(*INT_TYPES[dt])
        return rng.choice([lo, hi, 0, rng.randint(lo, hi), rng.choice([x for x in boundary_values(*INT_TYPES[dt]) if lo <= x <= hi])])
    if dt == BOOLEAN: return rng.randrange(2)
    if dt in REALS:
        while True:
            b = rng.choice(REAL_BITS[dt] + [rng.getrandbits(32 if dt == REAL32 else 64)])
            if not math.isnan(bits_to_float(b, *REALS[dt])): return {"bits": b}
    n = rng.choice([0, 1, 2, 3, 4, 5, 6, 7, 8, 13, 14, 15, 200, rng.randrange(0, 201)])
    if dt == VISIBLE:
        s = [rng.randrange(1, 128) for _ in range(n)]
        return {"str": s}
    if dt == UNICODE:
        s = [x for x in (rng.choice([rng.randrange(1, 128), rng.randrange(1, 0x10000), rng.randrange(0x10000, 0x110000)])
                         for _ in range(n // 2)) if not 0xD800 <= x < 0xE000]
        return {"str": s}
    return {"bytes": [rng.randrange(256) for _ in range(n)]}


ALLT = NUMERIC + [BOOLEAN, REAL32, REAL64, VISIBLE, OCTET, UNICODE, DOMAIN]


def gen_cases(rng, tier):
    cases = []
    reps = {"quick": 1, "thorough": 6, "search": 3}[tier]
    for mode in ("inline", "thread", "vbus"):
        for rep in range(reps if mode == "inline" else max(1, reps // 2)):
            for access in ("index", "name", "member", "record"):
                items = []
                for dt in ALLT:
                    for _ in range(2 if mode == "inline" else 1):
                        items.append([access, dt, rand_value(rng, dt)])
                cases.append(dict(kind="rt", mode=mode, seed=rng.randrange(10 ** 6), items=items,
                                  model=(mode == "inline"), trace=(mode == "inline")))
    # boundary sweep, inline
    for dt in NUMERIC:
        s, w = INT_TYPES[dt]
        lo, hi = rng_of(s, w)
        vals = [v for v in boundary_values(s, w) if lo <= v <= hi]
        if tier == "quick":
            vals = rng.sample(vals, min(len(vals), 12)) + [lo, hi]
        cases.append(dict(kind="rt", mode="inline", items=[["index", dt, v] for v in vals], model=True, trace=True))
    for dt in (VISIBLE, OCTET, UNICODE, DOMAIN):
        lens = range(0, 201) if tier != "quick" else [0, 1, 3, 4, 5, 6, 7, 8, 13, 14, 15, 21, 22, 199, 200]
        items = []
        for n in lens:
            if dt == VISIBLE: v = {"str": [rng.randrange(1, 128) for _ in range(n)]}
            elif dt == UNICODE: v = {"str": [rng.randrange(1, 0xD800) for _ in range(n // 2)]}
            else: v = {"bytes": [rng.randrange(256) for _ in range(n)]}
            items.append(["index", dt, v])
        for k in range(0, len(items), 40):
            cases.append(dict(kind="rt", mode="inline", items=items[k:k + 40], model=True, trace=True))
    if tier == "thorough":
        for dt in (0x02, 0x05, 0x03, 0x06):
            lo, hi = rng_of(*INT_TYPES[dt])
            allv = list(range(lo, hi + 1))
            for k in range(0, len(allv), 4096):
                cases.append(dict(kind="rt", mode="inline", items=[["index", dt, v] for v in allv[k:k + 4096]], model=False))
    # a slow device and a client whose response time-out the application raised accordingly
    for rep in range({"quick": 1, "thorough": 3, "search": 2}[tier]):
        dts = rng.sample(list(NUMERIC), 2) + [rng.choice([VISIBLE, OCTET, DOMAIN])]
        items = []
        for dt in dts:
            v = rand_value(rng, dt)
            if isinstance(v, dict):        # keep it to a few segments: every response costs SLOW_DELAY
                v = {k: x[:9] for k, x in v.items()}
            items.append([rng.choice(["index", "name"]), dt, v])
        cases.append(dict(kind="rt", mode="slow", seed=rng.randrange(10 ** 6), items=items, model=False, trace=False))
    # concurrency
    for mode in ("thread", "vbus"):
        for n in ((1, 2, 8) if tier == "quick" else (1, 2, 3, 4, 5, 6, 7, 8)):
            cases.append(dict(kind="conc", mode=mode, nthreads=n, per={"quick": 6, "thorough": 40, "search": 15}[tier],
                              seed=rng.randrange(10 ** 6), model=False))
    return cases


def shrink(c):
    if c["kind"] == "rt":
        items = c["items"]
        if len(items) <= 1 and c["mode"] == "inline":
            return
        if c["mode"] != "inline":          # the same failure under inline delivery is the smaller (and faster) case
            for i in range(len(items)):
                yield dict(c, mode="inline", items=[items[i]], model=True, trace=True)
        for i in range(len(items)):
            yield dict(c, items=[items[i]])


COQ_IMPORTS = COQ_IMPORTS % gdict()
